package core

import (
	"fmt"
	"go/constant"
	"go/token"
	"go/types"

	"golang.org/x/tools/go/ssa"
)

// FieldKey returns "Type.field" if v is (a load of) a struct field, looking
// through loads and representation-preserving conversions; "" otherwise.
func FieldKey(v ssa.Value) string {
	for i := 0; i < 20; i++ {
		switch x := v.(type) {
		case *ssa.Parameter:
			if e, ok := paramAsField[x]; ok {
				return e.key
			}
			return ""
		case *ssa.UnOp:
			if x.Op == token.MUL {
				v = x.X
				continue
			}
			return ""
		case *ssa.ChangeType:
			v = x.X
			continue
		case *ssa.Convert:
			v = x.X
			continue
		case *ssa.FieldAddr:
			return ownerTypeName(x, x.X) + "." + FieldName(x.X.Type(), x.Field)
		case *ssa.Field:
			return ownerTypeName(x, x.X) + "." + FieldName(x.X.Type(), x.Field)
		case *ssa.Call:
			// an accessor that only returns a field of its receiver
			if r := ThinReturn(Callee(&x.Call)); r != nil {
				v = r
				continue
			}
		}
		return ""
	}
	return ""
}

// paramAsField: a channel parameter of an unexported function that, at every call site, is handed the very channel
// stored in one field of the object passed as first argument (`go h.run(ioCh)` right after `h := T{ch: ioCh}`), where
// that field is only ever written while its object is being built: inside the function the parameter IS that field of
// its first parameter. Filled by ResolveParamFields.
type paramField struct {
	key   string
	owner *ssa.Parameter
}

var paramAsField = map[*ssa.Parameter]paramField{}

// ResolveParamFields fills paramAsField. Called once after loading.
func ResolveParamFields(p *Prog) {
	paramAsField = map[*ssa.Parameter]paramField{}
	// fields written only at construction (every store goes to an object the storing function allocates itself)
	frozen := map[string]bool{}
	for _, f := range p.Funcs {
		Instrs(f, func(ins ssa.Instruction) {
			st, ok := ins.(*ssa.Store)
			if !ok {
				return
			}
			fa, isFA := st.Addr.(*ssa.FieldAddr)
			if !isFA {
				return
			}
			if _, isCh := fa.Type().(*types.Pointer).Elem().Underlying().(*types.Chan); !isCh {
				return
			}
			k := FieldKey(fa)
			if _, seen := frozen[k]; !seen {
				frozen[k] = true
			}
			if _, isAlloc := Resolve(FieldOwner(fa)).(*ssa.Alloc); !isAlloc {
				frozen[k] = false
			}
		})
	}
	for _, f := range p.Funcs {
		if f.Parent() != nil || f.Object() == nil || f.Object().Exported() || len(f.Params) < 1 {
			continue
		}
		// a function that is handed only the channel (`go runPosted(ioCh)` right after `h := &T{ch: ioCh}`): the
		// parameter is that field of the object being built, without an owner to name
		if _, isCh := f.Params[0].Type().Underlying().(*types.Chan); isCh && f.Signature.Recv() == nil {
			sites, complete := CallSites(p, f)
			key := ""
			if !complete || len(sites) == 0 {
				key = "-"
			}
			for _, s := range sites {
				ci, isCI := s.Instr.(ssa.CallInstruction)
				if key == "-" || !isCI || s.Outer != nil || len(ci.Common().Args) < 1 || Callee(ci.Common()) != f {
					key = "-"
					break
				}
				a := Unwrap(ci.Common().Args[0])
				k := ""
				Instrs(s.Caller, func(ins ssa.Instruction) {
					st, ok := ins.(*ssa.Store)
					if !ok || Unwrap(st.Val) != a || !InstrDominates(st, s.Instr) {
						return
					}
					if fa, isFA := st.Addr.(*ssa.FieldAddr); isFA {
						if _, fresh := Resolve(FieldOwner(fa)).(*ssa.Alloc); fresh {
							k = FieldKey(fa)
						}
					}
				})
				if k == "" || !frozen[k] || (key != "" && key != k) {
					key = "-"
					break
				}
				key = k
			}
			if key != "" && key != "-" {
				paramAsField[f.Params[0]] = paramField{key, nil}
			}
		}
		for i := 1; i < len(f.Params); i++ {
			if _, isCh := f.Params[i].Type().Underlying().(*types.Chan); !isCh {
				continue
			}
			sites, complete := CallSites(p, f)
			if !complete || len(sites) == 0 {
				continue
			}
			key := ""
			for _, s := range sites {
				ci, isCI := s.Instr.(ssa.CallInstruction)
				if !isCI || s.Outer != nil || len(ci.Common().Args) <= i || Callee(ci.Common()) != f {
					key = "-"
					break
				}
				obj, a := Resolve(ci.Common().Args[0]), Unwrap(ci.Common().Args[i])
				k := ""
				Instrs(s.Caller, func(ins ssa.Instruction) {
					st, ok := ins.(*ssa.Store)
					if !ok || Unwrap(st.Val) != a || !InstrDominates(st, s.Instr) {
						return
					}
					if fa, isFA := st.Addr.(*ssa.FieldAddr); isFA && Resolve(FieldOwner(fa)) == obj {
						k = FieldKey(fa)
					}
				})
				if k == "" || !frozen[k] || (key != "" && key != k) {
					key = "-"
					break
				}
				key = k
			}
			if key != "" && key != "-" {
				paramAsField[f.Params[i]] = paramField{key, f.Params[0]}
			}
		}
	}
}

// IsAtomGet / IsAtomSet: f reads / writes an atomic boolean flag given as its first argument - the library's own
// AtomBool or the standard library's atomic.Bool (same argument layout: flag address, then the value for the setter).
func IsAtomGet(f *ssa.Function) bool {
	if f == nil {
		return false
	}
	n := FuncName(f)
	return n == "fpgo.AtomBool.Get" || n == "atomic.Bool.Load" || stateAccessor(f) == "get"
}

func IsAtomSet(f *ssa.Function) bool {
	if f == nil {
		return false
	}
	n := FuncName(f)
	return n == "fpgo.AtomBool.Set" || n == "atomic.Bool.Store" || stateAccessor(f) == "set"
}

// FlagSetTrue: the call raises the flag given as its first argument: AtomBool.Set(true) / atomic.Bool.Store(true), or
// the marking helper of a private state type (`x.state.markClosed()`).
func FlagSetTrue(c *ssa.CallCommon) bool {
	g := Callee(c)
	if g == nil || !IsAtomSet(g) {
		return false
	}
	if stateAccessor(g) == "set" {
		return true
	}
	if len(c.Args) != 2 {
		return false
	}
	k, ok := c.Args[1].(*ssa.Const)
	return ok && k.Value != nil && k.Value.Kind() == constant.Bool && constant.BoolVal(k.Value)
}

// StateLoadCmp: v is `load(&x.f) != K` / `== K` where load is the raw atomic load of a private state type (its load
// method or sync/atomic.LoadInt32 on its field) and the comparison is true for the type's set constant and false for the
// zero value: returns the address loaded from (the flag) - the expression reads as "the flag is set".
func StateLoadCmp(v ssa.Value) (ssa.Value, bool) {
	b, ok := v.(*ssa.BinOp)
	if !ok || (b.Op != token.EQL && b.Op != token.NEQ) {
		return nil, false
	}
	side, kc := b.X, b.Y
	if _, isK := kc.(*ssa.Const); !isK {
		side, kc = b.Y, b.X
	}
	k, isK := kc.(*ssa.Const)
	if !isK || k.Value == nil || k.Value.Kind() != constant.Int {
		return nil, false
	}
	for {
		if cv, okc := side.(*ssa.Convert); okc {
			side = cv.X
			continue
		}
		if ct, okc := side.(*ssa.ChangeType); okc {
			side = ct.X
			continue
		}
		break
	}
	if u, isU := side.(*ssa.UnOp); isU && u.Op == token.MUL && theProg != nil {
		// the plain read of a value of a private state type (its reader helper written out)
		if pt, okp := u.X.Type().Underlying().(*types.Pointer); okp {
			if named, okn := pt.Elem().(*types.Named); okn {
				if kset, okSet := stateSetConst(named, theProg); okSet {
					kk := k.Int64()
					onSet := (kset == kk) == (b.Op == token.EQL)
					onZero := (0 == kk) == (b.Op == token.EQL)
					if onSet && !onZero {
						return u.X, true
					}
				}
			}
		}
		return nil, false
	}
	call, isC := side.(*ssa.Call)
	if !isC || len(call.Call.Args) != 1 {
		return nil, false
	}
	g := Callee(&call.Call)
	if g == nil || !stateRawAccess(g, false) {
		return nil, false
	}
	rt := g.Signature.Recv().Type()
	if pt, okp := rt.(*types.Pointer); okp {
		rt = pt.Elem()
	}
	named, okn := rt.(*types.Named)
	if !okn {
		return nil, false
	}
	kset, okSet := stateSetConst(named, g.Prog)
	if !okSet {
		return nil, false
	}
	kk := k.Int64()
	onSet := (kset == kk) == (b.Op == token.EQL)
	onZero := (0 == kk) == (b.Op == token.EQL)
	if onSet && !onZero {
		return call.Call.Args[0], true
	}
	return nil, false
}

var stateAccMemo = map[*ssa.Function]string{}

// stateAccessor recognises the two helpers of a private two-state type that stands for a boolean flag
// (`type lifecycle uint8` / `struct{ state int32 }` with `isClosed()` and `markClosed()`):
//   "set": an unexported method whose only effect is to store one non-zero constant K into its receiver (plain or
//          atomic.StoreInt32/StoreUint32), the same K in every such method of the type;
//   "get": an unexported method without effects returning `load(receiver) == K'` / `!= K'` that is true for K and false
//          for the zero value.
// The zero value of the type is the not-set state. "" otherwise.
func stateAccessor(f *ssa.Function) string {
	if r, ok := stateAccMemo[f]; ok {
		return r
	}
	stateAccMemo[f] = ""
	if f == nil || f.Signature.Recv() == nil || len(f.Blocks) != 1 || f.Object() == nil || f.Object().Exported() || f.Pkg == nil || len(f.Params) < 1 || len(f.Params) > 2 {
		return ""
	}
	if path := f.Pkg.Pkg.Path(); len(path) < len(ModPath) || path[:len(ModPath)] != ModPath {
		return ""
	}
	rt := f.Signature.Recv().Type()
	if pt, ok := rt.(*types.Pointer); ok {
		rt = pt.Elem()
	}
	named, ok := rt.(*types.Named)
	if !ok || named.Obj().Exported() {
		return ""
	}
	kset, okSet := stateSetConst(named, f.Prog)
	if !okSet {
		return ""
	}
	if k, isSet := stateStores(f); isSet {
		if k == kset {
			stateAccMemo[f] = "set"
		}
		return stateAccMemo[f]
	}
	// reader
	ret, isRet := f.Blocks[0].Instrs[len(f.Blocks[0].Instrs)-1].(*ssa.Return)
	if !isRet || len(ret.Results) != 1 || len(f.Params) != 1 {
		return ""
	}
	for _, ins := range f.Blocks[0].Instrs {
		switch x := ins.(type) {
		case *ssa.Store, *ssa.MapUpdate, *ssa.Send, *ssa.Go, *ssa.Defer:
			if st, isSt := x.(*ssa.Store); isSt {
				if _, isAl := st.Addr.(*ssa.Alloc); isAl {
					continue
				}
			}
			return ""
		case *ssa.Call:
			if n := StdCallee(&x.Call); n != "sync/atomic.LoadInt32" && n != "sync/atomic.LoadUint32" && n != "sync/atomic.LoadInt64" && !stateRawAccess(Callee(&x.Call), false) {
				return ""
			}
		}
	}
	b, isB := Resolve(ret.Results[0]).(*ssa.BinOp)
	if !isB || (b.Op != token.EQL && b.Op != token.NEQ) {
		return ""
	}
	kc, isK := b.Y.(*ssa.Const)
	if !isK {
		kc, isK = b.X.(*ssa.Const)
	}
	if !isK || kc.Value == nil || kc.Value.Kind() != constant.Int {
		return ""
	}
	k := kc.Int64()
	onSet := (kset == k) == (b.Op == token.EQL)
	onZero := (0 == k) == (b.Op == token.EQL)
	if onSet && !onZero {
		stateAccMemo[f] = "get"
	}
	return stateAccMemo[f]
}

// stateRawAccess: g is the raw atomic load (store=false: `return T(atomic.LoadInt32((*int32)(s)))`) or raw atomic store
// (store=true: `atomic.StoreInt32((*int32)(s), int32(v))` of its parameter) method of a state type.
func stateRawAccess(g *ssa.Function, store bool) bool {
	if g == nil || len(g.Blocks) != 1 || g.Signature.Recv() == nil || g.Object() == nil || g.Object().Exported() {
		return false
	}
	n := 0
	for _, ins := range g.Blocks[0].Instrs {
		switch x := ins.(type) {
		case *ssa.Call:
			name := StdCallee(&x.Call)
			if store {
				if name != "sync/atomic.StoreInt32" && name != "sync/atomic.StoreUint32" && name != "sync/atomic.StoreInt64" {
					return false
				}
				v := x.Call.Args[1]
				for {
					if cv, ok := v.(*ssa.Convert); ok {
						v = cv.X
						continue
					}
					if ct, ok := v.(*ssa.ChangeType); ok {
						v = ct.X
						continue
					}
					break
				}
				if _, isK := v.(*ssa.Const); len(g.Params) != 2 || (v != ssa.Value(g.Params[1]) && !isK) {
					return false // (a constant: the parameter was specialised to the only value ever passed)
				}
			} else if name != "sync/atomic.LoadInt32" && name != "sync/atomic.LoadUint32" && name != "sync/atomic.LoadInt64" {
				return false
			}
			n++
		case *ssa.Store, *ssa.MapUpdate, *ssa.Send, *ssa.Go, *ssa.Defer, *ssa.If:
			return false
		}
	}
	if store {
		return n == 1 && g.Signature.Results().Len() == 0
	}
	return n == 1 && len(g.Params) == 1 && g.Signature.Results().Len() == 1
}

// stateStores: f's only effect is one store of an integer constant into its receiver; returns the constant.
func stateStores(f *ssa.Function) (int64, bool) {
	var k int64
	n := 0
	for _, ins := range f.Blocks[0].Instrs {
		switch x := ins.(type) {
		case *ssa.Store:
			if _, isAl := x.Addr.(*ssa.Alloc); isAl {
				continue
			}
			c, ok := x.Val.(*ssa.Const)
			if !ok || c.Value == nil || c.Value.Kind() != constant.Int {
				return 0, false
			}
			k, n = c.Int64(), n+1
		case *ssa.Call:
			name := StdCallee(&x.Call)
			if name != "sync/atomic.StoreInt32" && name != "sync/atomic.StoreUint32" && name != "sync/atomic.StoreInt64" && !stateRawAccess(Callee(&x.Call), true) {
				return 0, false
			}
			c, ok := x.Call.Args[1].(*ssa.Const)
			if !ok || c.Value == nil {
				if cv, isCv := x.Call.Args[1].(*ssa.Convert); isCv {
					c, ok = cv.X.(*ssa.Const)
				}
			}
			if !ok || c == nil || c.Value == nil || c.Value.Kind() != constant.Int {
				return 0, false
			}
			k, n = c.Int64(), n+1
		case *ssa.MapUpdate, *ssa.Send, *ssa.Go, *ssa.Defer:
			return 0, false
		}
	}
	if f.Signature.Results().Len() != 0 {
		return 0, false
	}
	return k, n == 1 && k != 0
}

// stateSetConst: the single non-zero constant the setters of the state type store.
func stateSetConst(named *types.Named, prog *ssa.Program) (int64, bool) {
	var k int64
	found := false
	for _, recv := range []types.Type{named, types.NewPointer(named)} {
		ms := prog.MethodSets.MethodSet(recv)
		for i := 0; i < ms.Len(); i++ {
			fo, ok := ms.At(i).Obj().(*types.Func)
			if !ok || fo.Exported() {
				continue
			}
			g := prog.FuncValue(fo)
			if g == nil || len(g.Blocks) != 1 || len(g.Params) < 1 || len(g.Params) > 2 {
				continue
			}
			if kk, isSet := stateStores(g); isSet {
				if found && kk != k {
					return 0, false
				}
				k, found = kk, true
			}
		}
	}
	return k, found
}

var thinMemo = map[*ssa.Function]ssa.Value{}

// ThinReturn: f is an accessor of the repository - one block, no effects (only field selections, loads, conversions,
// len/cap, AtomBool.Get and calls of other accessors), one result; returns the returned value, else nil.
func ThinReturn(f *ssa.Function) ssa.Value {
	if f == nil || len(f.Blocks) != 1 || f.Signature.Results().Len() != 1 || f.Pkg == nil || len(f.Params) == 0 {
		return nil
	}
	if r, ok := thinMemo[f]; ok {
		return r
	}
	thinMemo[f] = nil
	if path := f.Pkg.Pkg.Path(); len(path) < len(ModPath) || path[:len(ModPath)] != ModPath {
		return nil
	}
	var ret ssa.Value
	for _, ins := range f.Blocks[0].Instrs {
		switch x := ins.(type) {
		case *ssa.FieldAddr, *ssa.Field, *ssa.ChangeType, *ssa.Convert, *ssa.MakeInterface, *ssa.DebugRef, *ssa.Alloc:
		case *ssa.Store:
			// spilling a value receiver into its local cell
			if _, isAlloc := x.Addr.(*ssa.Alloc); !isAlloc {
				return nil
			}
			if _, isPrm := x.Val.(*ssa.Parameter); !isPrm {
				return nil
			}
		case *ssa.UnOp:
			if x.Op != token.MUL {
				return nil
			}
		case *ssa.Call:
			g := Callee(&x.Call)
			switch {
			case IsBuiltin(&x.Call, "len"), IsBuiltin(&x.Call, "cap"):
			case g != nil && IsAtomGet(g):
			case g != nil && g != f && ThinReturn(g) != nil:
			default:
				return nil
			}
		case *ssa.Return:
			if len(x.Results) != 1 {
				return nil
			}
			ret = x.Results[0]
		default:
			return nil
		}
	}
	thinMemo[f] = ret
	return ret
}

// thinBase: for a call of an accessor whose result is a field of its receiver, the receiver argument.
func thinBase(call *ssa.Call) ssa.Value {
	g := Callee(&call.Call)
	r := ThinReturn(g)
	if r == nil || len(call.Call.Args) == 0 {
		return nil
	}
	for i := 0; i < 10; i++ {
		switch x := r.(type) {
		case *ssa.UnOp:
			r = x.X
			continue
		case *ssa.ChangeType:
			r = x.X
			continue
		case *ssa.Call:
			if len(x.Call.Args) > 0 && IsAtomGet(Callee(&x.Call)) {
				r = x.Call.Args[0]
				continue
			}
		case *ssa.FieldAddr, *ssa.Field:
			o := Resolve(FieldOwner(x.(ssa.Value)))
			if o == ssa.Value(g.Params[0]) || isSpillOf(o, g.Params[0]) {
				return call.Call.Args[0]
			}
		}
		break
	}
	return nil
}

// FieldBase returns the path of the struct a field value was selected from.
func FieldBase(v ssa.Value) string {
	for i := 0; i < 20; i++ {
		switch x := v.(type) {
		case *ssa.Parameter:
			if e, ok := paramAsField[x]; ok && e.owner != nil {
				return e.owner.Name()
			}
			return ""
		case *ssa.UnOp:
			if x.Op == token.MUL {
				v = x.X
				continue
			}
			return ""
		case *ssa.ChangeType:
			v = x.X
			continue
		case *ssa.Convert:
			v = x.X
			continue
		case *ssa.FieldAddr:
			return Path(FieldOwner(x))
		case *ssa.Field:
			return Path(FieldOwner(x))
		case *ssa.Call:
			if b := thinBase(x); b != nil {
				return Path(b)
			}
		}
		return ""
	}
	return ""
}

// nestedOwner maps an unexported method-less struct type that only serves to group fields of another struct
// (`life corLifecycle`, an embedded `workerPoolState`, an anonymous `struct{…}` field) to that struct: its fields are
// treated as fields of the owner. Filled by ResolveRoles.
var nestedOwner = map[string]string{}

// sharedGroup: such a grouping struct used by value inside SEVERAL structs of the repository (one `mailbox[T]` behind
// both the Handler and the Actor): its fields count as fields of whichever owner a selection goes through.
var sharedGroup = map[string]bool{}

// ownerTypeName: the name of the struct the field selected by fa belongs to for the rules - for a field of a shared
// grouping struct the owner the selection chain goes through.
func ownerTypeName(x ssa.Value, base ssa.Value) string {
	fieldIdx := -1
	switch y := x.(type) {
	case *ssa.FieldAddr:
		fieldIdx = y.Field
	case *ssa.Field:
		fieldIdx = y.Field
	}
	raw := rawTypeName(base.Type())
	_, single := nestedOwner[raw]
	if single || sharedGroup[raw] {
		// a field of a grouping struct reads as a field of the owner - unless the owner has a field of that very name
		// of its own (an embedded component whose promoted field is shadowed): those are two different variables
		if o := FieldOwner(x); o != base && fieldIdx >= 0 {
			if shadowedIn(o.Type(), base.Type(), fieldIdx) {
				return raw
			}
			if sharedGroup[raw] {
				return typeName(o.Type())
			}
		}
	}
	return typeName(base.Type())
}

// shadowedIn: the struct owner has a direct field with the name of field i of the struct nested.
func shadowedIn(owner, nested types.Type, i int) bool {
	deref := func(t types.Type) *types.Struct {
		if pt, ok := t.Underlying().(*types.Pointer); ok {
			t = pt.Elem()
		}
		st, _ := t.Underlying().(*types.Struct)
		return st
	}
	os, ns := deref(owner), deref(nested)
	if os == nil || ns == nil || i >= ns.NumFields() {
		return false
	}
	name := ns.Field(i).Name()
	for k := 0; k < os.NumFields(); k++ {
		if os.Field(k).Name() == name {
			return true
		}
	}
	return false
}

// transparentStruct: t is a struct type used by value that merely groups fields - anonymous, or a named type of the
// repository without methods.
func transparentStruct(t types.Type) bool {
	if _, isPtr := t.(*types.Pointer); isPtr {
		return false
	}
	if _, isSt := t.Underlying().(*types.Struct); !isSt {
		return false
	}
	n, isNamed := t.(*types.Named)
	if !isNamed {
		return true
	}
	o := n.Origin()
	if o.Obj().Pkg() == nil || len(o.Obj().Pkg().Path()) < len(ModPath) || o.Obj().Pkg().Path()[:len(ModPath)] != ModPath {
		return false
	}
	if o.Obj().Exported() {
		return false
	}
	// a grouping struct may carry unexported helper methods (they then count as helpers of the owner) - but a type whose
	// methods are the reader / marker of a two-state flag is that flag, not a group
	for i := 0; i < o.NumMethods(); i++ {
		if o.Method(i).Exported() {
			return false
		}
		if theProg != nil {
			if g := theProg.FuncValue(o.Method(i)); g != nil && stateAccessor(g) != "" {
				return false
			}
		}
	}
	return true
}

// theProg: the SSA program being analysed (set by Load; lets type-level helpers look at method bodies).
var theProg *ssa.Program

// FieldOwner returns the value a field is selected from, looking through grouping structs: for `q.signals.loadCh` the
// owner is q.
func FieldOwner(v ssa.Value) ssa.Value {
	var b ssa.Value
	switch x := v.(type) {
	case *ssa.FieldAddr:
		b = x.X
	case *ssa.Field:
		b = x.X
	default:
		return v
	}
	for i := 0; i < 4; i++ {
		switch y := b.(type) {
		case *ssa.FieldAddr:
			if pt, ok := y.X.Type().Underlying().(*types.Pointer); ok {
				if st, ok := pt.Elem().Underlying().(*types.Struct); ok && y.Field < st.NumFields() && transparentStruct(st.Field(y.Field).Type()) {
					if _, mapped := nestedOwner[rawTypeName(st.Field(y.Field).Type())]; mapped || sharedGroup[rawTypeName(st.Field(y.Field).Type())] {
						b = y.X
						continue
					}
				}
			}
		case *ssa.Field:
			if st, ok := y.X.Type().Underlying().(*types.Struct); ok && y.Field < st.NumFields() && transparentStruct(st.Field(y.Field).Type()) {
				if _, mapped := nestedOwner[rawTypeName(st.Field(y.Field).Type())]; mapped || sharedGroup[rawTypeName(st.Field(y.Field).Type())] {
					b = y.X
					continue
				}
			}
		}
		break
	}
	return b
}

func typeName(t types.Type) string {
	for {
		if p, ok := t.(*types.Pointer); ok {
			t = p.Elem()
			continue
		}
		if p, ok := t.Underlying().(*types.Pointer); ok && t != p {
			t = p.Elem()
			continue
		}
		break
	}
	nm := t.String()
	if n, ok := t.(*types.Named); ok {
		nm = canonType(n.Origin().Obj().Name())
	}
	if owner, ok := nestedOwner[nm]; ok {
		return owner
	}
	return nm
}

// rawTypeName is typeName without the mapping of grouping structs to their owner.
func rawTypeName(t types.Type) string {
	for {
		if p, ok := t.(*types.Pointer); ok {
			t = p.Elem()
			continue
		}
		break
	}
	if n, ok := t.(*types.Named); ok {
		return canonType(n.Origin().Obj().Name())
	}
	return t.String()
}

// TypeName is the exported form of typeName.
func TypeName(t types.Type) string { return typeName(t) }

// Site is one place from which a function may be invoked.
type Site struct {
	Caller *ssa.Function
	Instr  ssa.Instruction // the Call / Go / Defer instruction that transfers control to the function
	Kind   string          // "call", "go", "defer"
	// Outer is set when the function is a closure passed as an argument to a repo
	// function that calls its parameter: Outer is the call that passed the closure.
	Outer *ssa.Call
	// Bound is set when the function is reached as a bound method value `T{…}.m`: the MakeClosure of
	// the bound-method wrapper (its single binding is the receiver).
	Bound *ssa.MakeClosure
}

// CallSites enumerates the invocation sites of f inside the repo. complete is
// false when f's value escapes in a way the analysis does not follow (stored in a
// field, sent, returned, passed to a non-repo or non-calling function) or when f is
// an exported top-level function/method (callable from outside).
func CallSites(p *Prog, f *ssa.Function) (sites []Site, complete bool) {
	complete = true
	if f.Parent() == nil {
		if o := f.Object(); o == nil || o.Exported() {
			complete = false
		}
		if f.Signature.Recv() != nil {
			// methods can be reached through interfaces
			if o := f.Object(); o != nil && o.Exported() {
				complete = false
			}
		}
	}
	var paramSites func(g *ssa.Function, idx int, outer *ssa.Call, depth int)
	paramSites = func(g *ssa.Function, idx int, outer *ssa.Call, depth int) {
		if idx >= len(g.Params) || depth > 3 {
			complete = false
			return
		}
		prm := g.Params[idx]
		if prm.Referrers() == nil {
			return
		}
		for _, r := range *prm.Referrers() {
			switch x := r.(type) {
			case *ssa.Call:
				if x.Call.Value == prm {
					sites = append(sites, Site{g, x, "call", outer, nil})
				} else {
					complete = false
				}
			case *ssa.Go:
				if x.Call.Value == prm {
					sites = append(sites, Site{g, x, "go", outer, nil})
				} else {
					complete = false
				}
			case *ssa.Defer:
				if x.Call.Value == prm {
					sites = append(sites, Site{g, x, "defer", outer, nil})
				} else {
					complete = false
				}
			case *ssa.DebugRef:
			default:
				complete = false
			}
		}
	}
	useOf := func(user *ssa.Function, v ssa.Value) {
		// v is a value in `user` that denotes f (MakeClosure or function constant)
		if v.Referrers() == nil {
			return
		}
		var visit func(v ssa.Value, depth int)
		visit = func(v ssa.Value, depth int) {
			for _, r := range *v.Referrers() {
				switch x := r.(type) {
				case *ssa.Call:
					if x.Call.Value == v {
						sites = append(sites, Site{user, x, "call", nil, nil})
						continue
					}
					g := Callee(&x.Call)
					if g == nil || !p.InRepo(g) || len(g.Blocks) == 0 {
						complete = false
						continue
					}
					for i, a := range x.Call.Args {
						if a == v {
							paramSites(g, i, x, 0)
						}
					}
				case *ssa.Go:
					if x.Call.Value == v {
						sites = append(sites, Site{user, x, "go", nil, nil})
					} else {
						complete = false
					}
				case *ssa.Defer:
					if x.Call.Value == v {
						sites = append(sites, Site{user, x, "defer", nil, nil})
					} else {
						complete = false
					}
				case *ssa.Store:
					// stored into a local cell: follow loads of the cell (in user and its closures)
					if a, ok := x.Addr.(*ssa.Alloc); ok && x.Val == v && depth < 2 {
						followCell(p, a, &sites, &complete, func(lv ssa.Value) { visit(lv, depth+1) })
					} else {
						complete = false
					}
				case *ssa.DebugRef:
				case *ssa.ChangeType:
					visit(x, depth)
				default:
					complete = false
				}
			}
		}
		visit(v, 0)
	}
	for _, user := range p.Funcs {
		Instrs(user, func(ins ssa.Instruction) {
			switch x := ins.(type) {
			case *ssa.MakeClosure:
				if x.Fn == ssa.Value(f) {
					useOf(user, x)
				} else if m, _ := boundTarget(x); m == f && m != nil {
					n0 := len(sites)
					useOf(user, x)
					for i := n0; i < len(sites); i++ {
						sites[i].Bound = x
					}
				}
			case ssa.CallInstruction:
				c := x.Common()
				if !c.IsInvoke() && Callee(c) == f {
					if _, isMC := c.Value.(*ssa.MakeClosure); isMC {
						return // handled through the MakeClosure's referrers
					}
					kind := "call"
					switch ins.(type) {
					case *ssa.Go:
						kind = "go"
					case *ssa.Defer:
						kind = "defer"
					}
					sites = append(sites, Site{user, ins, kind, nil, nil})
				}
			}
			// bare function value used as operand (not as static callee)
			for _, op := range ins.Operands(nil) {
				if *op == ssa.Value(f) {
					if ci, ok := ins.(ssa.CallInstruction); ok && ci.Common().Value == ssa.Value(f) {
						continue
					}
					if _, ok := ins.(*ssa.MakeClosure); ok {
						continue
					}
					complete = false
				}
			}
		})
	}
	return
}

// followCell visits loads of a local cell (including through closures capturing it).
func followCell(p *Prog, a *ssa.Alloc, sites *[]Site, complete *bool, visitLoad func(ssa.Value)) {
	var cells []ssa.Value
	cells = append(cells, a)
	for len(cells) > 0 {
		c := cells[0]
		cells = cells[1:]
		if c.Referrers() == nil {
			continue
		}
		for _, r := range *c.Referrers() {
			switch x := r.(type) {
			case *ssa.UnOp:
				visitLoad(x)
			case *ssa.Store:
				if x.Addr != c {
					*complete = false
				}
			case *ssa.MakeClosure:
				fn := x.Fn.(*ssa.Function)
				for i, b := range x.Bindings {
					if b == c && i < len(fn.FreeVars) {
						cells = append(cells, fn.FreeVars[i])
					}
				}
			case *ssa.DebugRef:
			default:
				*complete = false
			}
		}
	}
}

// ChanOp is a channel operation found in the program.
type ChanOp struct {
	Kind  string // "send", "recv", "close"
	Fn    *ssa.Function
	Instr ssa.Instruction
	Chan  ssa.Value
	Field string // "Type.field" when the channel is a struct field, else ""
	Base  string // path of the struct the field was selected from
	Via   string // name of the helper through which the op happens ("" = direct)
	// Blocking: for send/recv, whether the operation may block (bare op or select without default)
	Blocking bool
	// Alt: the operation is a case of a select that has a case on some other channel (e.g. a timer)
	Alt bool
	// altParams (summaries only): the parameters that are the channels of the other cases of that select, -1 for a
	// case on something else; a caller that passes nil for all of them has no alternative (a nil channel is never ready)
	altParams []int
}

// chanParamOps summarises, for a function whose parameter i has channel type,
// the operations it performs directly on that parameter.
func chanParamOps(f *ssa.Function) map[int][]ChanOp {
	out := map[int][]ChanOp{}
	idx := func(v ssa.Value) int {
		v = Unwrap(v)
		for {
			if ct, ok := v.(*ssa.ChangeType); ok {
				v = ct.X
				continue
			}
			break
		}
		for i, prm := range f.Params {
			if v == ssa.Value(prm) {
				return i
			}
		}
		return -1
	}
	Instrs(f, func(ins ssa.Instruction) {
		switch x := ins.(type) {
		case *ssa.Send:
			if i := idx(x.Chan); i >= 0 {
				out[i] = append(out[i], ChanOp{Kind: "send", Blocking: true})
			}
		case *ssa.Select:
			for si, st := range x.States {
				if i := idx(st.Chan); i >= 0 {
					k := "recv"
					if st.Dir == types.SendOnly {
						k = "send"
					}
					var others []int
					for sj, st2 := range x.States {
						if sj != si {
							others = append(others, idx(st2.Chan))
						}
					}
					out[i] = append(out[i], ChanOp{Kind: k, Blocking: x.Blocking, Alt: len(x.States) > 1, altParams: others})
				}
			}
		case *ssa.UnOp:
			if x.Op == token.ARROW {
				if i := idx(x.X); i >= 0 {
					out[i] = append(out[i], ChanOp{Kind: "recv", Blocking: true})
				}
			}
		case *ssa.Range:
			// range over channel appears as Next on a Range only for maps/strings; channel range is a loop of recv UnOps
		case ssa.CallInstruction:
			if IsBuiltin(x.Common(), "close") {
				if i := idx(x.Common().Args[0]); i >= 0 {
					out[i] = append(out[i], ChanOp{Kind: "close"})
				}
			}
		}
	})
	return out
}

// ChanOps enumerates all channel operations in the repo, attributing operations
// done by helpers on a channel-typed parameter (ChannelQueue methods) to the
// channel value passed at each call site.
func ChanOps(p *Prog) []ChanOp {
	var out []ChanOp
	summ := map[*ssa.Function]map[int][]ChanOp{}
	for _, f := range p.Funcs {
		if s := chanParamOps(f); len(s) > 0 {
			summ[f] = s
		}
	}
	// has the call an alternative for op o of its callee: not if every other case of the select waits on a parameter for
	// which the call passes nil
	altAt := func(o ChanOp, args []ssa.Value) bool {
		if !o.Alt || len(o.altParams) == 0 {
			return o.Alt
		}
		for _, pi := range o.altParams {
			if pi < 0 || pi >= len(args) || !IsNilConst(Resolve(args[pi])) {
				return true
			}
		}
		return false
	}
	// a helper that hands its channel parameter on to another summarised helper does what that one does
	for round := 0; round < 2; round++ {
		for _, f := range p.Funcs {
			Instrs(f, func(ins ssa.Instruction) {
				ci, ok := ins.(ssa.CallInstruction)
				if !ok {
					return
				}
				c := ci.Common()
				g := Callee(c)
				if g == nil || g == f {
					return
				}
				gs, okS := summ[g]
				if !okS {
					return
				}
				for gi, ops := range gs {
					if gi >= len(c.Args) {
						continue
					}
					a := Unwrap(c.Args[gi])
					for fi, prm := range f.Params {
						if a != ssa.Value(prm) {
							continue
						}
						for _, o := range ops {
							no := ChanOp{Kind: o.Kind, Blocking: o.Blocking, Alt: altAt(o, c.Args)}
							dup := false
							for _, e := range summ[f][fi] {
								if e.Kind == no.Kind && e.Blocking == no.Blocking && e.Alt == no.Alt {
									dup = true
								}
							}
							if !dup {
								if summ[f] == nil {
									summ[f] = map[int][]ChanOp{}
								}
								summ[f][fi] = append(summ[f][fi], no)
							}
						}
					}
				}
			})
		}
	}
	alt := false
	mk := func(kind string, f *ssa.Function, ins ssa.Instruction, ch ssa.Value, via string, blocking bool) {
		out = append(out, ChanOp{Kind: kind, Fn: f, Instr: ins, Chan: ch, Field: FieldKey(ch), Base: FieldBase(ch), Via: via, Blocking: blocking, Alt: alt})
		alt = false
	}
	// a channel operation passed in as a function value (`q.receive(ChannelQueue[T].Take)`, `q.receive(func(ch) { …
	// })`): where the function parameter of an unexported helper is called with a channel, and every call site of the
	// helper passes a known function, the call does what those functions do with that argument
	for _, f := range p.Funcs {
		for pi, prm := range f.Params {
			if _, isSig := prm.Type().Underlying().(*types.Signature); !isSig {
				continue
			}
			var dyn []*ssa.Call
			Instrs(f, func(ins ssa.Instruction) {
				if call, ok := ins.(*ssa.Call); ok && !call.Call.IsInvoke() && Callee(&call.Call) == nil && Resolve(call.Call.Value) == ssa.Value(prm) {
					dyn = append(dyn, call)
				}
			})
			if len(dyn) == 0 {
				continue
			}
			sites, complete := CallSites(p, f)
			if !complete || len(sites) == 0 {
				continue
			}
			var fns []*ssa.Function
			known := true
			for _, st := range sites {
				ci, isCI := st.Instr.(ssa.CallInstruction)
				if !isCI || pi >= len(ci.Common().Args) || Callee(ci.Common()) != f {
					known = false
					break
				}
				fv := ResolveFuncValue(p, ci.Common().Args[pi])
				if fv == nil || fv.Fn == nil {
					known = false
					break
				}
				fns = append(fns, fv.Fn)
			}
			if !known {
				continue
			}
			for _, call := range dyn {
				seen := map[string]bool{}
				for _, fn := range fns {
					for j, ops := range summ[fn] {
						if j >= len(call.Call.Args) {
							continue
						}
						for _, o := range ops {
							a := altAt(o, call.Call.Args)
							k := fmt.Sprintf("%s/%d/%v/%v", o.Kind, j, o.Blocking, a)
							if seen[k] {
								continue
							}
							seen[k] = true
							alt = a
							mk(o.Kind, f, call, call.Call.Args[j], FuncName(fn), o.Blocking)
						}
					}
				}
			}
		}
	}
	for _, f := range p.Funcs {
		Instrs(f, func(ins ssa.Instruction) {
			switch x := ins.(type) {
			case *ssa.Send:
				mk("send", f, ins, x.Chan, "", true)
			case *ssa.Select:
				for _, st := range x.States {
					k := "recv"
					if st.Dir == types.SendOnly {
						k = "send"
					}
					alt = len(x.States) > 1
					mk(k, f, ins, st.Chan, "", x.Blocking)
				}
			case *ssa.UnOp:
				if x.Op == token.ARROW {
					mk("recv", f, ins, x.X, "", true)
				}
			case ssa.CallInstruction:
				c := x.Common()
				if IsBuiltin(c, "close") {
					mk("close", f, ins, c.Args[0], "", false)
					return
				}
				if g := Callee(c); g != nil {
					if s, ok := summ[g]; ok {
						for i, ops := range s {
							if i < len(c.Args) {
								for _, o := range ops {
									alt = altAt(o, c.Args)
									mk(o.Kind, f, ins, c.Args[i], FuncName(g), o.Blocking)
								}
							}
						}
					}
				}
			}
		})
	}
	return out
}


// DerefSource returns the pointer p when v is `*p` - a load, or the result of an accessor of the repository that returns
// the value its receiver points to (`func (s *S) items() []T { return *s }`); nil otherwise.
func DerefSource(v ssa.Value) ssa.Value {
	v = Unwrap(v)
	switch x := v.(type) {
	case *ssa.UnOp:
		if x.Op == token.MUL {
			return x.X
		}
	case *ssa.Call:
		g := Callee(&x.Call)
		if r := ThinReturn(g); r != nil && len(x.Call.Args) > 0 {
			if u, ok := Unwrap(r).(*ssa.UnOp); ok && u.Op == token.MUL && u.X == ssa.Value(g.Params[0]) {
				return x.Call.Args[0]
			}
		}
	}
	return nil
}
