package core

import (
	"fmt"
	"go/token"
	"go/types"

	"golang.org/x/tools/go/ssa"
)

// ---------------------------------------------------------------- emptiness domain (C05/R1)
//
// EmpVal abstracts a value for the question "what does this operation do when an
// operand is nil / empty": collections are nil, empty (non-nil, no elements) or
// nonempty; "id:k" is exactly parameter k (identity preserved); fresh0 is a newly
// allocated empty collection; ints are constants or "pos" (a positive length).
type EmpVal struct {
	Kind string // nil | empty | nonempty | top | fresh0 | bool | int | pos | tuple
	Id   int    // parameter index this value is identical to, or -1
	B    bool
	I    int64
	Tup  []EmpVal
}

func (v EmpVal) String() string {
	s := v.Kind
	switch v.Kind {
	case "bool":
		s = fmt.Sprint(v.B)
	case "int":
		s = fmt.Sprint(v.I)
	}
	if v.Id >= 0 {
		s += fmt.Sprintf("(=arg%d)", v.Id)
	}
	return s
}

func empTop() EmpVal { return EmpVal{Kind: "top", Id: -1} }

type empEval struct {
	p     *Prog
	depth int
	steps int
}

// EvalEmpty runs f abstractly on args and classifies its (first) result.
func EvalEmpty(p *Prog, f *ssa.Function, args []EmpVal) EmpVal {
	e := &empEval{p: p}
	return e.call(f, args)
}

func (e *empEval) call(f *ssa.Function, args []EmpVal) EmpVal {
	f = Origin(f)
	if e.depth > 7 || len(f.Blocks) == 0 {
		return empTop()
	}
	e.depth++
	defer func() { e.depth-- }()
	env := map[ssa.Value]EmpVal{}
	for i, prm := range f.Params {
		if i < len(args) {
			a := args[i]
			a.Id = i
			env[prm] = a
		} else {
			env[prm] = empTop()
		}
	}
	b := f.Blocks[0]
	var prev *ssa.BasicBlock
	for {
		e.steps++
		if e.steps > 4000 {
			return empTop()
		}
		next := (*ssa.BasicBlock)(nil)
		for _, ins := range b.Instrs {
			switch x := ins.(type) {
			case *ssa.Phi:
				for i, pb := range b.Preds {
					if pb == prev {
						env[x] = e.val(env, x.Edges[i])
					}
				}
			case *ssa.If:
				c := e.val(env, x.Cond)
				if c.Kind != "bool" {
					return empTop()
				}
				if c.B {
					next = b.Succs[0]
				} else {
					next = b.Succs[1]
				}
			case *ssa.Jump:
				next = b.Succs[0]
			case *ssa.Return:
				if len(x.Results) == 0 {
					return EmpVal{Kind: "void", Id: -1}
				}
				rv := RetVals(x)
				r := e.val(env, rv[0])
				return r
			case *ssa.Panic:
				return EmpVal{Kind: "panic", Id: -1}
			case *ssa.Store:
				// local cells: remember the stored abstract value
				if a, ok := x.Addr.(*ssa.Alloc); ok {
					env[a] = e.val(env, x.Val)
				}
			case *ssa.MapUpdate, *ssa.DebugRef, *ssa.RunDefers, *ssa.Defer:
			case *ssa.Go, *ssa.Send:
				return empTop()
			case ssa.Value:
				env[x] = e.val(env, x)
				if env[x].Kind == "panic" {
					return env[x]
				}
			}
		}
		if next == nil {
			return empTop()
		}
		prev, b = b, next
	}
}

func isCollType(t types.Type) bool {
	if p, ok := t.Underlying().(*types.Pointer); ok {
		t = p.Elem()
	}
	switch t.Underlying().(type) {
	case *types.Slice, *types.Map:
		return true
	case *types.Struct:
		return true
	}
	return false
}

func (e *empEval) val(env map[ssa.Value]EmpVal, v ssa.Value) EmpVal {
	if r, ok := env[v]; ok {
		switch v.(type) {
		case *ssa.Phi, *ssa.Parameter, *ssa.Call, *ssa.Next, *ssa.Range:
			return r
		}
	}
	top := empTop()
	switch x := v.(type) {
	case *ssa.Const:
		if x.Value == nil {
			return EmpVal{Kind: "nil", Id: -1}
		}
		if b, ok := x.Type().Underlying().(*types.Basic); ok {
			if b.Info()&types.IsBoolean != 0 {
				return EmpVal{Kind: "bool", B: x.Value.String() == "true", Id: -1}
			}
			if b.Info()&types.IsInteger != 0 {
				return EmpVal{Kind: "int", I: x.Int64(), Id: -1}
			}
		}
		return top
	case *ssa.Parameter:
		return top
	case *ssa.Alloc:
		if r, ok := env[x]; ok {
			// pointer to a local holding r: identity is lost, emptiness kept
			r.Id = -1
			return r
		}
		// new(T) of a collection type: pointer to an empty collection
		return EmpVal{Kind: "fresh0", Id: -1}
	case *ssa.MakeSlice:
		if l := e.val(env, x.Len); l.Kind == "int" && l.I == 0 {
			return EmpVal{Kind: "fresh0", Id: -1}
		}
		return top
	case *ssa.MakeMap:
		return EmpVal{Kind: "fresh0", Id: -1}
	case *ssa.ChangeType:
		return e.val(env, x.X)
	case *ssa.ChangeInterface:
		return e.val(env, x.X)
	case *ssa.MakeInterface:
		return e.val(env, x.X)
	case *ssa.Convert:
		return e.val(env, x.X)
	case *ssa.TypeAssert:
		if x.CommaOk {
			return top
		}
		return e.val(env, x.X)
	case *ssa.Extract:
		t := e.val(env, x.Tuple)
		if t.Kind == "tuple" && x.Index < len(t.Tup) {
			return t.Tup[x.Index]
		}
		return top
	case *ssa.FieldAddr:
		// embedded set inside a StreamSet: same emptiness as the struct
		r := e.val(env, x.X)
		r.Id = -1
		return r
	case *ssa.Field:
		r := e.val(env, x.X)
		r.Id = -1
		return r
	case *ssa.Slice:
		r := e.val(env, x.X)
		if r.Kind == "nil" || r.Kind == "empty" || r.Kind == "fresh0" {
			r.Id = -1
			return r
		}
		return top
	case *ssa.UnOp:
		switch x.Op {
		case token.MUL:
			r := e.val(env, x.X)
			if r.Kind == "nil" {
				if _, isAlloc := x.X.(*ssa.Alloc); !isAlloc {
					// dereference of a nil pointer operand
					if _, isPtr := x.X.Type().Underlying().(*types.Pointer); isPtr {
						if _, isColl := x.Type().Underlying().(*types.Pointer); !isColl && isCollType(x.Type()) {
							return EmpVal{Kind: "panic", Id: -1}
						}
					}
				}
			}
			r.Id = -1
			if x.Type() == x.X.Type() {
				return r
			}
			// keep identity when loading a spilled parameter
			if a, ok := x.X.(*ssa.Alloc); ok {
				if rr, ok2 := env[a]; ok2 {
					return rr
				}
			}
			return r
		case token.NOT:
			c := e.val(env, x.X)
			if c.Kind == "bool" {
				return EmpVal{Kind: "bool", B: !c.B, Id: -1}
			}
		}
		return top
	case *ssa.BinOp:
		a, b := e.val(env, x.X), e.val(env, x.Y)
		isNilK := func(v EmpVal) bool { return v.Kind == "nil" }
		nonNil := func(v EmpVal) bool {
			return v.Kind == "empty" || v.Kind == "nonempty" || v.Kind == "fresh0"
		}
		switch x.Op {
		case token.EQL, token.NEQ:
			res, known := false, false
			switch {
			case isNilK(a) && isNilK(b):
				res, known = true, true
			case isNilK(a) && nonNil(b), isNilK(b) && nonNil(a):
				res, known = false, true
			case a.Kind == "int" && b.Kind == "int":
				res, known = a.I == b.I, true
			case a.Kind == "pos" && b.Kind == "int" && b.I <= 0, b.Kind == "pos" && a.Kind == "int" && a.I <= 0:
				res, known = false, true
			case a.Kind == "bool" && b.Kind == "bool":
				res, known = a.B == b.B, true
			}
			if known {
				if x.Op == token.NEQ {
					res = !res
				}
				return EmpVal{Kind: "bool", B: res, Id: -1}
			}
			return top
		case token.LSS, token.LEQ, token.GTR, token.GEQ:
			cmp, known := 0, false
			switch {
			case a.Kind == "int" && b.Kind == "int":
				known = true
				if a.I < b.I {
					cmp = -1
				} else if a.I > b.I {
					cmp = 1
				}
			case a.Kind == "pos" && b.Kind == "int" && b.I <= 0:
				cmp, known = 1, true
			case b.Kind == "pos" && a.Kind == "int" && a.I <= 0:
				cmp, known = -1, true
			}
			if !known {
				return top
			}
			var r bool
			switch x.Op {
			case token.LSS:
				r = cmp < 0
			case token.LEQ:
				r = cmp <= 0
			case token.GTR:
				r = cmp > 0
			case token.GEQ:
				r = cmp >= 0
			}
			return EmpVal{Kind: "bool", B: r, Id: -1}
		case token.ADD, token.SUB:
			if a.Kind == "int" && b.Kind == "int" {
				if x.Op == token.ADD {
					return EmpVal{Kind: "int", I: a.I + b.I, Id: -1}
				}
				return EmpVal{Kind: "int", I: a.I - b.I, Id: -1}
			}
			if x.Op == token.ADD && (a.Kind == "pos" && b.Kind == "int" && b.I >= 0 || b.Kind == "pos" && a.Kind == "int" && a.I >= 0) {
				return EmpVal{Kind: "pos", Id: -1}
			}
		}
		return top
	case *ssa.Range:
		return e.val(env, x.X)
	case *ssa.Next:
		r := e.val(env, x.Iter)
		if r.Kind == "nil" || r.Kind == "empty" || r.Kind == "fresh0" {
			return EmpVal{Kind: "tuple", Id: -1, Tup: []EmpVal{{Kind: "bool", B: false, Id: -1}, top, top}}
		}
		return top
	case *ssa.Lookup:
		r := e.val(env, x.X)
		if x.CommaOk && (r.Kind == "nil" || r.Kind == "empty" || r.Kind == "fresh0") {
			return EmpVal{Kind: "tuple", Id: -1, Tup: []EmpVal{top, {Kind: "bool", B: false, Id: -1}}}
		}
		return top
	case *ssa.Call:
		if b, ok := x.Call.Value.(*ssa.Builtin); ok {
			switch b.Name() {
			case "len":
				a := e.val(env, x.Call.Args[0])
				switch a.Kind {
				case "nil", "empty", "fresh0":
					return EmpVal{Kind: "int", I: 0, Id: -1}
				case "nonempty":
					return EmpVal{Kind: "pos", Id: -1}
				}
				return top
			case "append":
				a := e.val(env, x.Call.Args[0])
				if len(x.Call.Args) == 2 {
					b2 := e.val(env, x.Call.Args[1])
					em := func(v EmpVal) bool { return v.Kind == "nil" || v.Kind == "empty" || v.Kind == "fresh0" }
					if em(a) && em(b2) {
						return EmpVal{Kind: "fresh0", Id: -1}
					}
				}
				return top
			}
			return top
		}
		var g *ssa.Function
		var args []ssa.Value
		if x.Call.IsInvoke() {
			// SetDef interface: the only implementer in the repo is *MapSetDef
			for _, f := range e.p.Funcs {
				if f.Parent() == nil && f.Signature.Recv() != nil && f.Name() == x.Call.Method.Name() && TypeName(f.Signature.Recv().Type()) == "MapSetDef" {
					g = f
				}
			}
			args = append([]ssa.Value{x.Call.Value}, x.Call.Args...)
		} else {
			g = Callee(&x.Call)
			args = x.Call.Args
		}
		if g == nil || !e.p.InRepo(g) {
			return top
		}
		var av []EmpVal
		for _, a := range args {
			r := e.val(env, a)
			if r.Kind == "panic" {
				return r
			}
			r.Id = -1
			av = append(av, r)
		}
		r := e.call(g, av)
		// identity: callee returned its k-th argument → that argument's identity here
		if r.Id >= 0 && r.Id < len(args) {
			orig := e.val(env, args[r.Id])
			return orig
		}
		r.Id = -1
		return r
	}
	return top
}
