package core

import (
	"fmt"
	"go/constant"
	"go/types"
	"math"
	"math/big"

	"golang.org/x/tools/go/ssa"
)

// AV is an abstract numeric value: a (possibly half-open) interval of
// extended reals with exact big.Float bounds, plus flags.
type AV struct {
	Lo, Hi         *big.Float // may be ±Inf
	LoOpen, HiOpen bool
	NaN            bool // may be NaN
	Integral       bool // known to be integer-valued
	InfOnly        bool // known to be +Inf or -Inf
	// provenance
	Src     bool   // equals the conversion's source value (up to the roundings recorded below)
	Rounded bool   // passed through math.Round (half away from zero)
	Approx  bool   // passed through a conversion to a float type that may round to nearest
	Why     string // when Src is false: why exactness was lost
	Bool    bool   // boolean value (for bool sources)
}

const prec = 300

func BF(x float64) *big.Float  { return new(big.Float).SetPrec(prec).SetFloat64(x) }
func BI(x *big.Int) *big.Float { return new(big.Float).SetPrec(prec).SetInt(x) }
func Pow2(n uint) *big.Int     { return new(big.Int).Lsh(big.NewInt(1), n) }
func PInf() *big.Float         { return new(big.Float).SetPrec(prec).SetInf(false) }
func NInf() *big.Float         { return new(big.Float).SetPrec(prec).SetInf(true) }

var Sizes64 = types.SizesFor("gc", "amd64")

// TypeRange is the set of values of a basic numeric type.
func TypeRange(t types.Type) (AV, bool) {
	b, ok := t.Underlying().(*types.Basic)
	if !ok {
		return AV{}, false
	}
	if b.Info()&types.IsNumeric == 0 {
		return AV{}, false
	}
	bits := uint(Sizes64.Sizeof(b) * 8)
	switch {
	case b.Info()&types.IsUnsigned != 0:
		return AV{Lo: BF(0), Hi: BI(new(big.Int).Sub(Pow2(bits), big.NewInt(1))), Integral: true}, true
	case b.Info()&types.IsInteger != 0:
		return AV{Lo: BI(new(big.Int).Neg(Pow2(bits - 1))), Hi: BI(new(big.Int).Sub(Pow2(bits-1), big.NewInt(1))), Integral: true}, true
	case b.Kind() == types.Float32, b.Kind() == types.Float64:
		return AV{Lo: NInf(), Hi: PInf(), NaN: true}, true
	}
	return AV{}, false
}

func IsFloat(t types.Type) bool {
	b, ok := t.Underlying().(*types.Basic)
	return ok && b.Info()&types.IsFloat != 0
}
func IsInteger(t types.Type) bool {
	b, ok := t.Underlying().(*types.Basic)
	return ok && b.Info()&types.IsInteger != 0
}
func IsFloat32(t types.Type) bool {
	b, ok := t.Underlying().(*types.Basic)
	return ok && b.Kind() == types.Float32
}

func (a AV) String() string {
	if a.Bool {
		return "bool"
	}
	l, r := "[", "]"
	if a.LoOpen {
		l = "("
	}
	if a.HiOpen {
		r = ")"
	}
	s := fmt.Sprintf("%s%s, %s%s", l, a.Lo.Text('g', 22), a.Hi.Text('g', 22), r)
	if a.NaN {
		s += "∪NaN"
	}
	if a.InfOnly {
		s += " (±Inf only)"
	}
	return s
}

func (a AV) clone() AV {
	b := a
	if a.Lo != nil {
		b.Lo = new(big.Float).Copy(a.Lo)
	}
	if a.Hi != nil {
		b.Hi = new(big.Float).Copy(a.Hi)
	}
	return b
}

// Empty reports whether the (non-NaN part of the) interval is empty.
func (a AV) Empty() bool {
	c := a.Lo.Cmp(a.Hi)
	return c > 0 || (c == 0 && (a.LoOpen || a.HiOpen))
}

// Within: every non-NaN value of a lies in the closed interval r.
func (a AV) Within(r AV) bool {
	if a.Empty() {
		return true
	}
	return a.Lo.Cmp(r.Lo) >= 0 && a.Hi.Cmp(r.Hi) <= 0
}

// Meet intersects a with [lo,hi] bounds given (nil = no bound).
func (a AV) MeetLo(lo *big.Float, open bool) AV {
	b := a.clone()
	c := lo.Cmp(b.Lo)
	if c > 0 || (c == 0 && open) {
		b.Lo, b.LoOpen = new(big.Float).Copy(lo), open
	}
	return b
}
func (a AV) MeetHi(hi *big.Float, open bool) AV {
	b := a.clone()
	c := hi.Cmp(b.Hi)
	if c < 0 || (c == 0 && open) {
		b.Hi, b.HiOpen = new(big.Float).Copy(hi), open
	}
	return b
}

// IntHull tightens the bounds to integers (for integral-valued sets).
func (a AV) IntHull() AV {
	b := a.clone()
	if !b.Lo.IsInf() {
		i, acc := b.Lo.Int(nil) // truncation toward zero
		f := BI(i)
		// ceil
		if acc != big.Exact && b.Lo.Sign() > 0 {
			f = BI(new(big.Int).Add(i, big.NewInt(1)))
		}
		if f.Cmp(b.Lo) == 0 && b.LoOpen {
			f = BI(new(big.Int).Add(i, big.NewInt(1)))
		}
		b.Lo, b.LoOpen = f, false
	}
	if !b.Hi.IsInf() {
		i, acc := b.Hi.Int(nil)
		f := BI(i)
		// floor
		if acc != big.Exact && b.Hi.Sign() < 0 {
			f = BI(new(big.Int).Sub(i, big.NewInt(1)))
		}
		if f.Cmp(b.Hi) == 0 && b.HiOpen {
			f = BI(new(big.Int).Sub(i, big.NewInt(1)))
		}
		b.Hi, b.HiOpen = f, false
	}
	return b
}

// Intersects: the closed/open intervals a and r share a point.
func (a AV) Intersects(r AV) bool {
	m := a.MeetLo(r.Lo, r.LoOpen).MeetHi(r.Hi, r.HiOpen)
	return !m.Empty()
}

// ConstAV evaluates an SSA constant to a singleton.
func ConstAV(c *ssa.Const) (AV, bool) {
	if c.Value == nil {
		return AV{}, false
	}
	switch c.Value.Kind() {
	case constant.Bool:
		return AV{Bool: true}, true
	case constant.Int:
		i, ok := new(big.Int).SetString(c.Value.ExactString(), 10)
		if !ok {
			return AV{}, false
		}
		f := BI(i)
		if IsFloat(c.Type()) {
			f = roundToFloat(f, IsFloat32(c.Type()))
		}
		return AV{Lo: f, Hi: new(big.Float).Copy(f), Integral: true}, true
	case constant.Float:
		v := constant.ToFloat(c.Value)
		r := new(big.Float).SetPrec(prec)
		if _, _, err := r.Parse(v.ExactString(), 0); err != nil {
			// rational "a/b"
			rat, ok := new(big.Rat).SetString(v.ExactString())
			if !ok {
				return AV{}, false
			}
			r.SetRat(rat)
		}
		if IsFloat(c.Type()) {
			r = roundToFloat(r, IsFloat32(c.Type()))
		}
		return AV{Lo: r, Hi: new(big.Float).Copy(r), Integral: r.IsInt()}, true
	}
	return AV{}, false
}

// roundToFloat rounds x to the nearest float32/float64 (ties to even), saturating to ±Inf like Go conversions of non-constants.
func roundToFloat(x *big.Float, f32 bool) *big.Float {
	if x.IsInf() {
		return new(big.Float).Copy(x)
	}
	if f32 {
		v, _ := x.Float32()
		return BF(float64(v))
	}
	v, _ := x.Float64()
	return BF(v)
}

// RoundHalfAway is math.Round on an exact value.
func RoundHalfAway(x *big.Float) *big.Float {
	if x.IsInf() || x.IsInt() {
		return new(big.Float).Copy(x)
	}
	half := new(big.Float).SetPrec(prec).SetFloat64(0.5)
	y := new(big.Float).SetPrec(prec)
	if x.Sign() >= 0 {
		y.Add(x, half)
		i, _ := y.Int(nil)
		return BI(i)
	}
	y.Sub(x, half)
	i, _ := y.Int(nil)
	return BI(i)
}

// MaxFloat returns the largest finite value of the float type.
func MaxFloat(f32 bool) *big.Float {
	if f32 {
		return BF(math.MaxFloat32)
	}
	return BF(math.MaxFloat64)
}

// exactIntInFloat: every integer in [lo,hi] is exactly representable in the float type.
func exactIntInFloat(a AV, f32 bool) bool {
	lim := BI(Pow2(53))
	if f32 {
		lim = BI(Pow2(24))
	}
	neg := new(big.Float).Neg(lim)
	return a.Lo.Cmp(neg) >= 0 && a.Hi.Cmp(lim) <= 0
}

// ConvertAV models the Go conversion of a value of type from to type to.
// It returns the result and, when the conversion may change the mathematical
// value in a way the property forbids, a non-empty problem description.
func ConvertAV(a AV, from, to types.Type) (AV, string) {
	r := a.clone()
	switch {
	case IsInteger(from) && IsInteger(to):
		tr, _ := TypeRange(to)
		if !a.Within(tr) {
			r = tr
			r.Src, r.Why = false, fmt.Sprintf("%s(x) with x ∈ %s does not fit %s: wraps", to, a, tr)
			return r, r.Why
		}
		return r, ""
	case IsInteger(from) && IsFloat(to):
		f32 := IsFloat32(to)
		r.Lo, r.Hi = roundToFloat(a.Lo, f32), roundToFloat(a.Hi, f32)
		r.LoOpen, r.HiOpen = false, false
		if !exactIntInFloat(a, f32) {
			r.Approx = true
		}
		return r, ""
	case IsFloat(from) && IsFloat(to):
		if IsFloat32(to) && !IsFloat32(from) {
			m := MaxFloat(true)
			fin := AV{Lo: new(big.Float).Neg(m), Hi: m}
			if !a.InfOnly && !a.Within(fin) {
				r.Src, r.Why = false, fmt.Sprintf("float32(x) with x ∈ %s: a finite value beyond ±MaxFloat32 becomes ±Inf", a)
				r.Lo, r.Hi = NInf(), PInf()
				return r, r.Why
			}
			r.Lo, r.Hi = roundToFloat(a.Lo, true), roundToFloat(a.Hi, true)
			r.LoOpen, r.HiOpen = false, false
			r.Approx = true
		}
		return r, ""
	case IsFloat(from) && IsInteger(to):
		tr, _ := TypeRange(to)
		if a.NaN {
			r = tr
			r.Src, r.Why = false, fmt.Sprintf("%s(x): x may be NaN (NaN passes every comparison's false branch)", to)
			return r, r.Why
		}
		if !a.Integral {
			r = tr
			r.Src, r.Why = false, fmt.Sprintf("%s(x) truncates a possibly non-integral float (no math.Round: not 'rounded half away from zero')", to)
			return r, r.Why
		}
		if a.InfOnly || !a.Within(tr) {
			r = tr
			r.Src, r.Why = false, fmt.Sprintf("%s(x) with x ∈ %s does not fit %s: implementation-defined wrap", to, a, tr)
			return r, r.Why
		}
		r.Integral = true
		return r, ""
	}
	r.Src, r.Why = false, fmt.Sprintf("unsupported conversion %s→%s", from, to)
	return r, r.Why
}

// RoundAV models math.Round.
func RoundAV(a AV) AV {
	r := a.clone()
	r.Lo, r.Hi = RoundHalfAway(a.Lo), RoundHalfAway(a.Hi)
	r.LoOpen, r.HiOpen = false, false
	r.Integral, r.Rounded = true, true
	return r
}

// FloatNeighbour returns the largest float (of the given width) strictly below k (below=true)
// or the smallest strictly above k.
func FloatNeighbour(k *big.Float, f32, below bool) *big.Float {
	if f32 {
		v, _ := k.Float32()
		c := BF(float64(v))
		if below && c.Cmp(k) >= 0 {
			v = math.Nextafter32(v, float32(math.Inf(-1)))
		} else if !below && c.Cmp(k) <= 0 {
			v = math.Nextafter32(v, float32(math.Inf(1)))
		}
		return BF(float64(v))
	}
	v, _ := k.Float64()
	c := BF(v)
	if below && c.Cmp(k) >= 0 {
		v = math.Nextafter(v, math.Inf(-1))
	} else if !below && c.Cmp(k) <= 0 {
		v = math.Nextafter(v, math.Inf(1))
	}
	return BF(v)
}
