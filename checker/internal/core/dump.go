package core

import "fmt"

// Dump prints debugging views of the shared analyses.
func Dump(p *Prog, what string) {
	li := ComputeLocks(p)
	switch what {
	case "chanops":
		for _, o := range ChanOps(p) {
			fmt.Printf("%-5s %-28s base=%-14s via=%-24s blocking=%-5v %-50s %s locks=%s\n", o.Kind, o.Field, o.Base, o.Via, o.Blocking, FuncName(o.Fn), p.InstrPos(o.Instr), li.At[o.Instr])
		}
	case "entry":
		for _, f := range p.Funcs {
			if len(li.Entry[f]) > 0 {
				fmt.Printf("%-60s %s\n", FuncName(f), li.Entry[f])
			}
		}
	case "sites":
		for _, f := range p.Funcs {
			s, c := CallSites(p, f)
			fmt.Printf("%-60s complete=%v", FuncName(f), c)
			for _, x := range s {
				fmt.Printf(" [%s %s@%s]", x.Kind, FuncName(x.Caller), p.InstrPos(x.Instr))
			}
			fmt.Println()
		}
	}
}
