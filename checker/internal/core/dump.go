package core

import "fmt"

// Dump prints debugging views of the shared analyses.
func Dump(p *Prog, what string) {
	li := ComputeLocks(p)
	switch what {
	case "chanops":
		for _, o := range ChanOps(p) {
			fmt.Printf("%-5s %-28s base=%-14s via=%-24s blocking=%-5v %-50s %s locks=%s\n", o.Kind, o.Field, o.Base, o.Via, o.Blocking, FuncName(o.Fn), p.InstrPos(o.Instr), li.At[o.Instr])
		}
	case "entry":
		for _, f := range p.Funcs {
			if len(li.Entry[f]) > 0 {
				fmt.Printf("%-60s %s\n", FuncName(f), li.Entry[f])
			}
		}
	case "effects":
		ei := ComputeEffects(p)
		for _, f := range p.Funcs {
			e := ei.Of[f]
			var rs []string
			for k := range e.Ret {
				rs = append(rs, e.Ret[k].Describe(f)+"/ident"+e.RetIdent[k].Describe(f))
			}
			fmt.Printf("%-55s writes=%-22s ret=%v\n", FuncName(f), e.Writes.Describe(f), rs)
			for _, s := range e.Sites {
				fmt.Printf("      write at %s: %s\n", p.InstrPos(s.Instr), s.What)
			}
		}
	case "sites":
		for _, f := range p.Funcs {
			s, c := CallSites(p, f)
			fmt.Printf("%-60s complete=%v", FuncName(f), c)
			for _, x := range s {
				fmt.Printf(" [%s %s@%s]", x.Kind, FuncName(x.Caller), p.InstrPos(x.Instr))
			}
			fmt.Println()
		}
	}
}
