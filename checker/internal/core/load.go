// Package core holds program loading, reporting and the shared analyses.
package core

import (
	"golang.org/x/tools/go/ast/astutil"
	"fmt"
	"go/ast"
	"go/constant"
	"go/token"
	"go/types"
	"os"
	"path/filepath"
	"sort"
	"strings"

	"golang.org/x/tools/go/packages"
	"golang.org/x/tools/go/ssa"
	"golang.org/x/tools/go/ssa/ssautil"
)

const ModPath = "github.com/TeaEntityLab/fpGo/v2"

// Prog is the type-checked program plus its SSA form.
type Prog struct {
	RepoDir string
	Fset    *token.FileSet
	Pkgs    []*packages.Package // the three fpGo packages
	SSA     *ssa.Program
	Fpgo    *ssa.Package
	Network *ssa.Package
	Worker  *ssa.Package
	// Funcs are all source-level functions of the three packages (generic
	// bodies, methods, nested closures), sorted by name.
	Funcs []*ssa.Function
	byObj map[types.Object]*ssa.Function
}

// Load type-checks /repo (non-test files) and builds SSA. Any load or type
// error is fatal: the check must not pass on a tree it could not analyse.
func Load(repo string) (*Prog, error) {
	env := []string{}
	for _, e := range os.Environ() {
		if strings.HasPrefix(e, "GOFLAGS=") || strings.HasPrefix(e, "GOWORK=") || strings.HasPrefix(e, "GOPROXY=") || strings.HasPrefix(e, "GOTOOLCHAIN=") || strings.HasPrefix(e, "GOSUMDB=") {
			continue
		}
		env = append(env, e)
	}
	env = append(env, "GOFLAGS=-mod=mod", "GOWORK=off", "GOPROXY=off", "GOSUMDB=off", "GOTOOLCHAIN=local")
	cfg := &packages.Config{
		Mode:  packages.LoadAllSyntax,
		Dir:   repo,
		Env:   env,
		Tests: false,
	}
	pkgs, err := packages.Load(cfg, "./...")
	if err != nil {
		return nil, fmt.Errorf("load: %v", err)
	}
	if len(pkgs) == 0 {
		return nil, fmt.Errorf("load: no packages under %s", repo)
	}
	var errs []string
	packages.Visit(pkgs, nil, func(p *packages.Package) {
		for _, e := range p.Errors {
			errs = append(errs, e.Error())
		}
	})
	if len(errs) > 0 {
		return nil, fmt.Errorf("load: %d type/parse errors, first: %s", len(errs), errs[0])
	}
	// go/ssa keeps `if <constant> { … }` as a real branch; statements guarded by a false constant (`const debug = false`)
	// are dead in every execution, so they are removed from the syntax before the SSA form (and the twin normal forms)
	// are built
	InlinedAway, inlinedSites = map[types.Object]bool{}, map[types.Object]int{}
	for _, pk := range pkgs {
		if strings.HasPrefix(pk.PkgPath, ModPath) && pk.TypesInfo != nil {
			inlineHelpers(pk.Fset, pk.Types, pk.TypesInfo, pk.Syntax)
			inlineHelpers(pk.Fset, pk.Types, pk.TypesInfo, pk.Syntax) // a helper written in terms of another one
			markInlinedAway(pk.TypesInfo, pk.Syntax)
			if os.Getenv("FPCHECK_DEBUG_INLINE") != "" {
				for o, n := range inlinedSites {
					fmt.Fprintf(os.Stderr, "inlined %s at %d sites (away=%v)\n", o.Name(), n, InlinedAway[o])
				}
			}
			specialiseConstParams(pk.TypesInfo, pk.Syntax)
			pruneConstIfs(pk.TypesInfo, pk.Syntax)
		}
	}
	prog, _ := ssautil.AllPackages(pkgs, ssa.BuilderMode(0))
	prog.Build()
	theProg = prog
	stateAccMemo = map[*ssa.Function]string{}
	p := &Prog{RepoDir: repo, Fset: prog.Fset, SSA: prog, byObj: map[types.Object]*ssa.Function{}}
	for _, pk := range pkgs {
		sp := prog.Package(pk.Types)
		switch pk.PkgPath {
		case ModPath:
			p.Fpgo = sp
		case ModPath + "/network":
			p.Network = sp
		case ModPath + "/worker":
			p.Worker = sp
		default:
			continue
		}
		p.Pkgs = append(p.Pkgs, pk)
	}
	if p.Fpgo == nil || p.Network == nil || p.Worker == nil {
		return nil, fmt.Errorf("load: expected packages fpgo, network, worker; got %d packages", len(pkgs))
	}
	seen := map[*ssa.Function]bool{}
	var add func(f *ssa.Function)
	add = func(f *ssa.Function) {
		if f == nil || seen[f] || f.Synthetic != "" && !strings.HasPrefix(f.Synthetic, "package init") {
			return
		}
		if o := f.Object(); o != nil && InlinedAway[o] {
			return // a one-line helper every call of which was replaced by its body
		}
		if f.Synthetic != "" { // package initializer: keep (global initialisers live there)
		}
		seen[f] = true
		p.Funcs = append(p.Funcs, f)
		if o := f.Object(); o != nil {
			p.byObj[o] = f
		}
		for _, a := range f.AnonFuncs {
			add(a)
		}
	}
	for _, sp := range []*ssa.Package{p.Fpgo, p.Network, p.Worker} {
		names := make([]string, 0, len(sp.Members))
		for n := range sp.Members {
			names = append(names, n)
		}
		sort.Strings(names)
		for _, n := range names {
			switch m := sp.Members[n].(type) {
			case *ssa.Function:
				add(m)
			case *ssa.Type:
				if named, ok := m.Type().(*types.Named); ok {
					for i := 0; i < named.NumMethods(); i++ {
						add(prog.FuncValue(named.Method(i)))
					}
				}
			}
		}
	}
	sort.SliceStable(p.Funcs, func(i, j int) bool { return FuncName(p.Funcs[i]) < FuncName(p.Funcs[j]) })
	for _, f := range p.Funcs {
		forwardSpills(f)
	}
	resolveFuncGlobals(p)
	devirtualise(p)
	ResolveRoles(p)
	ResolveParamFields(p)
	return p, nil
}

// PkgOf returns the go/packages package for an ssa package.
func (p *Prog) PkgOf(sp *ssa.Package) *packages.Package {
	for _, pk := range p.Pkgs {
		if pk.Types == sp.Pkg {
			return pk
		}
	}
	return nil
}

// Func returns the package-level function name in sp, or nil.
func (p *Prog) Func(sp *ssa.Package, name string) *ssa.Function {
	if f, ok := sp.Members[name].(*ssa.Function); ok {
		return f
	}
	for f, canon := range funcAlias {
		if canon == name && f.Signature.Recv() == nil && f.Pkg == sp {
			return f
		}
	}
	for f, canon := range fullAlias {
		if canon == name && f.Pkg == sp {
			return f
		}
	}
	return nil
}

// Named returns the named type name in sp.
func (p *Prog) Named(sp *ssa.Package, name string) *types.Named {
	if t, ok := sp.Members[name].(*ssa.Type); ok {
		if n, ok := t.Type().(*types.Named); ok {
			return n
		}
	}
	// an unexported anchor type that was renamed
	for actual, canon := range typeAlias {
		if canon == name {
			if t, ok := sp.Members[actual].(*ssa.Type); ok {
				if n, ok := t.Type().(*types.Named); ok {
					return n
				}
			}
		}
	}
	return nil
}

// Method returns the declared method typ.name (generic body), or nil. An unexported helper that
// was renamed is found through its role alias.
func (p *Prog) Method(sp *ssa.Package, typ, name string) *ssa.Function {
	if f := p.methodExact(sp, typ, name); f != nil {
		return f
	}
	for f, canon := range funcAlias {
		if canon == name && f.Signature.Recv() != nil && typeName(f.Signature.Recv().Type()) == typ {
			return f
		}
	}
	for f, canon := range fullAlias {
		if canon == typ+"."+name && f.Pkg == sp {
			return f
		}
	}
	return nil
}

func (p *Prog) methodExact(sp *ssa.Package, typ, name string) *ssa.Function {
	n := p.Named(sp, typ)
	if n == nil {
		return nil
	}
	for i := 0; i < n.NumMethods(); i++ {
		if n.Method(i).Name() == name {
			return p.SSA.FuncValue(n.Method(i))
		}
	}
	return nil
}

// Methods returns all declared methods of typ, sorted by name.
func (p *Prog) Methods(sp *ssa.Package, typ string) []*ssa.Function {
	n := p.Named(sp, typ)
	if n == nil {
		return nil
	}
	var out []*ssa.Function
	for i := 0; i < n.NumMethods(); i++ {
		if f := p.SSA.FuncValue(n.Method(i)); f != nil {
			out = append(out, f)
		}
	}
	// unexported helpers written as plain functions that take the object as their first argument count as its methods
	// (`func recycle(q *Queue, n *Node)` for `func (q *Queue) recycle(n *Node)`)
	for _, f := range p.Funcs {
		if f.Parent() == nil && f.Pkg == sp && f.Signature.Recv() == nil && f.Object() != nil && !f.Object().Exported() && len(f.Params) > 0 && rawTypeName(f.Params[0].Type()) == canonType(n.Obj().Name()) {
			out = append(out, f)
		}
		// unexported methods of a grouping struct embedded in the type
		if f.Parent() == nil && f.Pkg == sp && f.Signature.Recv() != nil && f.Object() != nil && !f.Object().Exported() && rawTypeName(f.Signature.Recv().Type()) != canonType(n.Obj().Name()) && typeName(f.Signature.Recv().Type()) == canonType(n.Obj().Name()) {
			out = append(out, f)
		}
	}
	sort.Slice(out, func(i, j int) bool { return out[i].Name() < out[j].Name() })
	return out
}

// FuncOf maps a types.Func (possibly an instantiation) to its generic ssa body.
func (p *Prog) FuncOf(o *types.Func) *ssa.Function {
	if o == nil {
		return nil
	}
	o = o.Origin()
	if f, ok := p.byObj[o]; ok {
		return f
	}
	return p.SSA.FuncValue(o)
}

// Origin returns the generic origin of an ssa function (itself if not an instance).
func Origin(f *ssa.Function) *ssa.Function {
	if f == nil {
		return nil
	}
	if strings.HasPrefix(f.Synthetic, "thunk for") && len(f.Blocks) == 1 {
		// method expression `T.m(recv, args...)`: the thunk only forwards to the method, with the receiver as first argument -
		// exactly the shape every rule already sees for a method call
		for _, ins := range f.Blocks[0].Instrs {
			if c, ok := ins.(*ssa.Call); ok && !c.Call.IsInvoke() {
				if g := c.Call.StaticCallee(); g != nil && g != f && len(c.Call.Args) == len(f.Params) {
					return Origin(g)
				}
			}
		}
	}
	if o := f.Origin(); o != nil {
		return o
	}
	return f
}

// InRepo reports whether f belongs to one of the three fpGo packages.
func (p *Prog) InRepo(f *ssa.Function) bool {
	f = Origin(f)
	for f.Parent() != nil {
		f = f.Parent()
	}
	if f.Pkg == nil {
		if o := f.Object(); o != nil && o.Pkg() != nil {
			return strings.HasPrefix(o.Pkg().Path(), ModPath)
		}
		return false
	}
	return f.Pkg == p.Fpgo || f.Pkg == p.Network || f.Pkg == p.Worker
}

// FuncName is a stable, position-free name: pkg.(Type).Method or pkg.Func, closures as parent$N.
func FuncName(f *ssa.Function) string {
	if f == nil {
		return "<nil>"
	}
	if f.Parent() != nil {
		return FuncName(f.Parent()) + "$" + strings.TrimPrefix(f.Name(), f.Parent().Name()+"$")
	}
	pkg := ""
	if f.Pkg != nil {
		pkg = f.Pkg.Pkg.Name() + "."
	} else if o := f.Object(); o != nil && o.Pkg() != nil {
		pkg = o.Pkg().Name() + "."
	}
	if c, ok := fullAlias[f]; ok {
		return pkg + c
	}
	name := f.Name()
	if c, ok := funcAlias[f]; ok {
		name = c
	}
	if recv := f.Signature.Recv(); recv != nil {
		t := recv.Type()
		if pt, ok := t.(*types.Pointer); ok {
			t = pt.Elem()
		}
		if n, ok := t.(*types.Named); ok {
			return pkg + canonType(n.Obj().Name()) + "." + name
		}
	}
	return pkg + name
}

// Pos renders a position relative to the repo root.
func (p *Prog) Pos(pos token.Pos) string {
	if !pos.IsValid() {
		return "-"
	}
	ps := p.Fset.Position(pos)
	rel, err := filepath.Rel(p.RepoDir, ps.Filename)
	if err != nil {
		rel = ps.Filename
	}
	return fmt.Sprintf("%s:%d", rel, ps.Line)
}

// InstrPos finds a usable position for an instruction (falls back to the function).
func (p *Prog) InstrPos(ins ssa.Instruction) string {
	if ins == nil {
		return "-"
	}
	if ins.Pos().IsValid() {
		return p.Pos(ins.Pos())
	}
	if v, ok := ins.(ssa.Value); ok {
		for _, r := range *v.Referrers() {
			if r.Pos().IsValid() {
				return p.Pos(r.Pos())
			}
		}
	}
	return p.Pos(ins.Parent().Pos())
}

// FuncDecl returns the AST declaration of a top-level function.
func (p *Prog) FuncDecl(f *ssa.Function) *ast.FuncDecl {
	if fd, ok := f.Syntax().(*ast.FuncDecl); ok {
		return fd
	}
	return nil
}

// TypesInfo returns the types.Info of the package containing f.
func (p *Prog) TypesInfo(f *ssa.Function) *types.Info {
	for f.Parent() != nil {
		f = f.Parent()
	}
	f = Origin(f)
	for _, pk := range p.Pkgs {
		if f.Pkg != nil && pk.Types == f.Pkg.Pkg {
			return pk.TypesInfo
		}
	}
	return nil
}


// specialiseConstParams: an unexported function or method that is only ever called (never used as a value) and whose
// parameter i receives the same constant at every call site - `sortWith(fn, xs, true)`, the general form behind an
// exported entry point - behaves, in this program, as if that parameter were the constant. Every read of such a
// parameter in the body is replaced (in the syntax, before the SSA form is built) by the constant expression of a call
// site, so that the branches it selects become constant conditions (removed by pruneConstIfs). Parameters that the
// body assigns or takes the address of are left alone.
func specialiseConstParams(info *types.Info, files []*ast.File) {
	decls := map[*types.Func]*ast.FuncDecl{}
	for _, f := range files {
		for _, d := range f.Decls {
			if fd, ok := d.(*ast.FuncDecl); ok && fd.Body != nil {
				if fo, isF := info.Defs[fd.Name].(*types.Func); isF && !fo.Exported() {
					decls[fo] = fd
				}
			}
		}
	}
	if len(decls) == 0 {
		return
	}
	calleeOf := func(fun ast.Expr) (*types.Func, *ast.Ident) {
		for {
			switch x := fun.(type) {
			case *ast.ParenExpr:
				fun = x.X
				continue
			case *ast.IndexExpr:
				fun = x.X
				continue
			case *ast.IndexListExpr:
				fun = x.X
				continue
			}
			break
		}
		var id *ast.Ident
		switch x := fun.(type) {
		case *ast.Ident:
			id = x
		case *ast.SelectorExpr:
			id = x.Sel
		}
		if id == nil {
			return nil, nil
		}
		fo, _ := info.Uses[id].(*types.Func)
		if fo != nil {
			fo = fo.Origin()
		}
		return fo, id
	}
	sites := map[*types.Func][]*ast.CallExpr{}
	inCall := map[*ast.Ident]bool{}
	for _, f := range files {
		ast.Inspect(f, func(n ast.Node) bool {
			if call, ok := n.(*ast.CallExpr); ok {
				if fo, id := calleeOf(call.Fun); fo != nil && decls[fo] != nil {
					sites[fo] = append(sites[fo], call)
					inCall[id] = true
				}
			}
			return true
		})
	}
	// a use outside call position (method value, function value) means unknown callers
	escapes := map[*types.Func]bool{}
	for id, obj := range info.Uses {
		if fo, ok := obj.(*types.Func); ok && decls[fo.Origin()] != nil && !inCall[id] {
			escapes[fo.Origin()] = true
		}
	}
	for fo, fd := range decls {
		calls := sites[fo]
		if len(calls) == 0 || escapes[fo] {
			continue
		}
		sig, _ := fo.Type().(*types.Signature)
		if sig == nil || sig.Variadic() {
			continue
		}
		var params []*ast.Ident
		for _, fl := range fd.Type.Params.List {
			params = append(params, fl.Names...)
		}
		for i, prm := range params {
			pobj := info.Defs[prm]
			if pobj == nil || prm.Name == "_" {
				continue
			}
			var val constant.Value
			same := true
			for _, call := range calls {
				if i >= len(call.Args) || len(call.Args) != len(params) {
					same = false
					break
				}
				tv, ok := info.Types[call.Args[i]]
				if !ok || tv.Value == nil {
					same = false
					break
				}
				if val == nil {
					val = tv.Value
				} else if val.Kind() != tv.Value.Kind() || !constant.Compare(val, token.EQL, tv.Value) {
					same = false
					break
				}
			}
			if !same || val == nil {
				continue
			}
			// not assigned, not addressed, not captured for writing
			written := false
			ast.Inspect(fd.Body, func(n ast.Node) bool {
				switch x := n.(type) {
				case *ast.AssignStmt:
					for _, l := range x.Lhs {
						if id, ok := l.(*ast.Ident); ok && info.Uses[id] == pobj {
							written = true
						}
					}
				case *ast.IncDecStmt:
					if id, ok := x.X.(*ast.Ident); ok && info.Uses[id] == pobj {
						written = true
					}
				case *ast.UnaryExpr:
					if id, ok := x.X.(*ast.Ident); ok && x.Op == token.AND && info.Uses[id] == pobj {
						written = true
					}
				}
				return true
			})
			if written {
				continue
			}
			repl := calls[0].Args[i]
			astutil.Apply(fd.Body, func(c *astutil.Cursor) bool {
				if id, ok := c.Node().(*ast.Ident); ok && info.Uses[id] == pobj {
					// only in expression position (not a field name / key of a composite literal for a struct, which Uses would not map to the parameter anyway)
					if _, isExpr := c.Parent().(ast.Node); isExpr {
						c.Replace(repl)
					}
				}
				return true
			}, nil)
		}
	}
}

// substType replaces type parameters in t according to m (the common type constructors; anything else is returned
// unchanged).
func substType(t types.Type, m map[*types.TypeParam]types.Type) types.Type {
	if len(m) == 0 || t == nil {
		return t
	}
	switch x := t.(type) {
	case *types.TypeParam:
		if r, ok := m[x]; ok {
			return r
		}
	case *types.Pointer:
		return types.NewPointer(substType(x.Elem(), m))
	case *types.Slice:
		return types.NewSlice(substType(x.Elem(), m))
	case *types.Array:
		return types.NewArray(substType(x.Elem(), m), x.Len())
	case *types.Map:
		return types.NewMap(substType(x.Key(), m), substType(x.Elem(), m))
	case *types.Chan:
		return types.NewChan(x.Dir(), substType(x.Elem(), m))
	case *types.Tuple:
		vars := make([]*types.Var, x.Len())
		for i := range vars {
			v := x.At(i)
			vars[i] = types.NewVar(v.Pos(), v.Pkg(), v.Name(), substType(v.Type(), m))
		}
		return types.NewTuple(vars...)
	case *types.Signature:
		if x.Recv() != nil || x.TypeParams().Len() > 0 {
			return t
		}
		ps, _ := substType(x.Params(), m).(*types.Tuple)
		rs, _ := substType(x.Results(), m).(*types.Tuple)
		return types.NewSignatureType(nil, nil, nil, ps, rs, x.Variadic())
	case *types.Named:
		if x.TypeArgs().Len() == 0 {
			return t
		}
		args := make([]types.Type, x.TypeArgs().Len())
		changed := false
		for i := range args {
			args[i] = substType(x.TypeArgs().At(i), m)
			if args[i] != x.TypeArgs().At(i) {
				changed = true
			}
		}
		if !changed {
			return t
		}
		if inst, err := types.Instantiate(nil, x.Origin(), args, false); err == nil {
			return inst
		}
	}
	return t
}

// constCond evaluates a boolean condition that is constant once constant operands are known: literals and constants
// recorded by the type checker, combined with !, &&, ||, == and != .
func constCond(info *types.Info, e ast.Expr) (bool, bool) {
	if tv, ok := info.Types[e]; ok && tv.Value != nil && tv.Value.Kind() == constant.Bool {
		return constant.BoolVal(tv.Value), true
	}
	switch x := e.(type) {
	case *ast.ParenExpr:
		return constCond(info, x.X)
	case *ast.UnaryExpr:
		if x.Op == token.NOT {
			if v, ok := constCond(info, x.X); ok {
				return !v, true
			}
		}
	case *ast.BinaryExpr:
		switch x.Op {
		case token.LAND, token.LOR:
			a, okA := constCond(info, x.X)
			b, okB := constCond(info, x.Y)
			if x.Op == token.LAND {
				if okA && !a || okB && !b && okA {
					return false, true
				}
				if okA && okB {
					return a && b, true
				}
			} else {
				if okA && a {
					return true, true
				}
				if okA && okB {
					return a || b, true
				}
			}
		case token.EQL, token.NEQ:
			ta, okA := info.Types[x.X]
			tb, okB := info.Types[x.Y]
			if okA && okB && ta.Value != nil && tb.Value != nil && ta.Value.Kind() == tb.Value.Kind() {
				eq := constant.Compare(ta.Value, token.EQL, tb.Value)
				return eq == (x.Op == token.EQL), true
			}
		}
	}
	return false, false
}

// pruneConstIfs replaces every `if c { A } else { B }` whose condition is a boolean constant by its live branch.
func pruneConstIfs(info *types.Info, files []*ast.File) {
	var simplify func(s ast.Stmt) ast.Stmt
	simplify = func(s ast.Stmt) ast.Stmt {
		for i := 0; i < 8; i++ {
			ifs, ok := s.(*ast.IfStmt)
			if !ok || ifs.Init != nil {
				return s
			}
			cv, ok := constCond(info, ifs.Cond)
			if !ok {
				return s
			}
			switch {
			case cv:
				s = ifs.Body
			case ifs.Else != nil:
				s = ifs.Else
			default:
				return &ast.EmptyStmt{Semicolon: ifs.Pos(), Implicit: true}
			}
		}
		return s
	}
	fix := func(list []ast.Stmt) {
		for i, s := range list {
			list[i] = simplify(s)
		}
	}
	for _, f := range files {
		ast.Inspect(f, func(n ast.Node) bool {
			switch x := n.(type) {
			case *ast.BlockStmt:
				fix(x.List)
			case *ast.CaseClause:
				fix(x.Body)
			case *ast.CommClause:
				fix(x.Body)
			case *ast.IfStmt:
				if x.Else != nil {
					x.Else = simplify(x.Else)
				}
			case *ast.LabeledStmt:
				x.Stmt = simplify(x.Stmt)
			}
			return true
		})
	}
}


// forwardSpills: go/ssa keeps every variable that a closure mentions in a memory cell, even when nobody ever assigns it
// again - a parameter captured by a deferred func, a local read inside a callback. For a cell that is stored exactly once,
// in its own function, by a store that dominates every load of that function, and that no closure writes, each load in the
// function is replaced by the stored value (the loads inside closures stay loads of the captured variable and are mapped
// to the binding where needed). The rules then see the same operands whether or not a closure happens to mention a
// variable.
func forwardSpills(f *ssa.Function) {
	for _, b := range f.Blocks {
		for _, ins := range b.Instrs {
			al, ok := ins.(*ssa.Alloc)
			if !ok || al.Referrers() == nil {
				continue
			}
			var store *ssa.Store
			var loads []*ssa.UnOp
			okShape := true
			for _, r := range *al.Referrers() {
				switch x := r.(type) {
				case *ssa.Store:
					if x.Addr != ssa.Value(al) || store != nil {
						okShape = false
					}
					store = x
				case *ssa.UnOp:
					if x.Op == token.MUL && x.X == ssa.Value(al) {
						loads = append(loads, x)
					} else {
						okShape = false
					}
				case *ssa.MakeClosure:
					for i, bnd := range x.Bindings {
						if bnd == ssa.Value(al) && !freeVarReadOnly(x.Fn.(*ssa.Function), i, 0) {
							okShape = false
						}
					}
				case *ssa.DebugRef:
				default:
					okShape = false
				}
			}
			if !okShape || store == nil || len(loads) == 0 {
				continue
			}
			for _, ld := range loads {
				if !InstrDominates(store, ld) {
					continue
				}
				replaceValue(ld, store.Val)
			}
		}
	}
}

// freeVarReadOnly: closure fn only loads its i-th free variable (or hands it to nested closures that only load it).
func freeVarReadOnly(fn *ssa.Function, i int, depth int) bool {
	if i >= len(fn.FreeVars) || depth > 4 {
		return false
	}
	fv := fn.FreeVars[i]
	if fv.Referrers() == nil {
		return true
	}
	for _, r := range *fv.Referrers() {
		switch x := r.(type) {
		case *ssa.UnOp:
			if x.Op != token.MUL {
				return false
			}
		case *ssa.MakeClosure:
			for k, bnd := range x.Bindings {
				if bnd == ssa.Value(fv) && !freeVarReadOnly(x.Fn.(*ssa.Function), k, depth+1) {
					return false
				}
			}
		case *ssa.DebugRef:
		default:
			return false
		}
	}
	return true
}

// replaceValue makes every user of old use new instead (operands and referrer lists).
// resolveFuncGlobals: a package-level variable of function type that is assigned exactly once, by its own declaration
// (`var queueAfter = time.After` - a seam for tests), and whose address is never taken otherwise, always holds that
// function: every load of it is replaced by the function itself, so that calls through the variable are the static calls
// they amount to.
func resolveFuncGlobals(p *Prog) {
	type info struct {
		stores []*ssa.Store
		loads  []*ssa.UnOp
		other  bool
	}
	gl := map[*ssa.Global]*info{}
	get := func(g *ssa.Global) *info {
		if gl[g] == nil {
			gl[g] = &info{}
		}
		return gl[g]
	}
	for _, f := range p.Funcs {
		Instrs(f, func(ins ssa.Instruction) {
			var rands []*ssa.Value
			for _, op := range ins.Operands(rands) {
				if op == nil || *op == nil {
					continue
				}
				g, ok := (*op).(*ssa.Global)
				if !ok || g.Pkg == nil || !(g.Pkg == p.Fpgo || g.Pkg == p.Network || g.Pkg == p.Worker) {
					continue
				}
				if _, isSig := g.Type().(*types.Pointer).Elem().Underlying().(*types.Signature); !isSig {
					continue
				}
				switch x := ins.(type) {
				case *ssa.Store:
					if x.Addr == ssa.Value(g) {
						get(g).stores = append(get(g).stores, x)
						continue
					}
				case *ssa.UnOp:
					if x.Op == token.MUL && x.X == ssa.Value(g) {
						get(g).loads = append(get(g).loads, x)
						continue
					}
				}
				get(g).other = true
			}
		})
	}
	for _, in := range gl {
		if in.other || len(in.stores) != 1 {
			continue
		}
		st := in.stores[0]
		if st.Parent().Name() != "init" || st.Parent().Parent() != nil {
			continue
		}
		v := st.Val
		for {
			if ct, ok := v.(*ssa.ChangeType); ok {
				v = ct.X
				continue
			}
			break
		}
		fn, ok := v.(*ssa.Function)
		if !ok {
			continue
		}
		for _, ld := range in.loads {
			replaceValue(ld, fn)
		}
	}
}

// devirtualise: a call through an UNEXPORTED interface of the repository (a seam: `type poster interface{ Post(func()) }`)
// into which the program only ever converts values of one concrete type is a call of that type's method. Such calls are
// rewritten in place into static calls with the receiver as first argument - the form every rule expects for a method
// call. Exported interfaces (WorkerPool, SortDescriptor, Pattern…) are left alone: callers can implement them.
func devirtualise(p *Prog) {
	impl := map[*types.Named]map[string]types.Type{} // interface -> concrete types converted into it (by type string)
	isSeam := func(t types.Type) *types.Named {
		n, ok := t.(*types.Named)
		if !ok {
			return nil
		}
		if _, isI := n.Underlying().(*types.Interface); !isI {
			return nil
		}
		o := n.Origin().Obj()
		if o.Exported() || o.Pkg() == nil || !strings.HasPrefix(o.Pkg().Path(), ModPath) {
			return nil
		}
		return n
	}
	for _, f := range p.Funcs {
		Instrs(f, func(ins ssa.Instruction) {
			var to types.Type
			var from ssa.Value
			switch x := ins.(type) {
			case *ssa.MakeInterface:
				to, from = x.Type(), x.X
			case *ssa.ChangeInterface:
				to, from = x.Type(), x.X
			default:
				return
			}
			if n := isSeam(to); n != nil {
				if impl[n] == nil {
					impl[n] = map[string]types.Type{}
				}
				ft := from.Type()
				if _, isI := ft.Underlying().(*types.Interface); isI {
					impl[n]["<interface>"] = ft // converted from another interface: unknown concrete types
				} else {
					impl[n][ft.String()] = ft
				}
			}
		})
	}
	for _, f := range p.Funcs {
		Instrs(f, func(ins ssa.Instruction) {
			ci, ok := ins.(ssa.CallInstruction)
			if !ok {
				return
			}
			c := ci.Common()
			if !c.IsInvoke() {
				return
			}
			n := isSeam(c.Value.Type())
			if n == nil || len(impl[n]) != 1 {
				return
			}
			var ct types.Type
			for _, t := range impl[n] {
				ct = t
			}
			if _, isI := ct.Underlying().(*types.Interface); isI {
				return
			}
			sel := p.SSA.MethodSets.MethodSet(ct).Lookup(c.Method.Pkg(), c.Method.Name())
			if sel == nil {
				return
			}
			fn := p.SSA.MethodValue(sel)
			if fn == nil {
				return
			}
			recv := c.Value
			c.Args = append([]ssa.Value{recv}, c.Args...)
			c.Value = fn
			c.Method = nil
		})
	}
}

func replaceValue(old ssa.Value, new ssa.Value) {
	refs := old.Referrers()
	if refs == nil {
		return
	}
	users := append([]ssa.Instruction{}, (*refs)...)
	for _, u := range users {
		var rands []*ssa.Value
		for _, op := range u.Operands(rands) {
			if op != nil && *op == old {
				*op = new
			}
		}
		if nr := new.Referrers(); nr != nil {
			*nr = append(*nr, u)
		}
	}
	*refs = nil
}
