package core

import (
	"fmt"
	"go/ast"
	"go/constant"
	"go/token"
	"go/types"
	"strings"
)

// ---------------------------------------------------------------- A10 twin normaliser
//
// NormalForm renders a function body as a canonical token list in which the
// differences that are inherent to "generic vs interface{} twin" are erased:
// local names (α-renaming), type arguments and element types, conversions
// between a collection type and its underlying type, type assertions, the
// wrapper idioms that build a pointer to a collection, X.AsMap() vs *X, the
// name of the embedded set field, and the ForInterface suffix of callees.
type normalizer struct {
	// Fresh reports whether a call expression returns freshly allocated storage (from the effects analysis)
	Fresh  func(*ast.CallExpr) bool
	info   *types.Info
	names  map[types.Object]string
	nLocal int
	out    []string
	// subst: a local defined as `v := E` whose only later use is `&v`: that use is rendered as ptr(E)
	subst map[types.Object][]string
	// inline: a temporary defined as `v := E` whose only use is as the whole right-hand side / result of the next statement
	// is rendered as E there
	inline map[types.Object][]string
}

// TwinName maps an identifier of the interface{} family to its generic twin's name.
func TwinName(n string) string {
	switch n {
	case "SetForInterfaceDef":
		return "MapSetDef"
	case "StreamSetFromInterface":
		return "StreamSetFrom"
	case "StreamSetFromArrayInterface":
		return "StreamSetFromArray"
	}
	return strings.ReplaceAll(n, "ForInterface", "")
}

func kindOf(t types.Type) string {
	if t == nil {
		return "type"
	}
	if p, ok := t.(*types.Pointer); ok {
		return "ptr:" + kindOf(p.Elem())
	}
	switch u := t.Underlying().(type) {
	case *types.Slice:
		return "slice"
	case *types.Map:
		return "map"
	case *types.Chan:
		return "chan"
	case *types.Struct:
		if n, ok := t.(*types.Named); ok {
			return "struct:" + TwinName(n.Origin().Obj().Name())
		}
		return "struct"
	case *types.Interface:
		return "value"
	case *types.Basic:
		if u.Info()&types.IsBoolean != 0 {
			return "bool"
		}
		return "value"
	case *types.Signature:
		return "func"
	}
	if _, ok := t.(*types.TypeParam); ok {
		return "value"
	}
	return "type"
}

func (n *normalizer) emit(s ...string) { n.out = append(n.out, s...) }

func (n *normalizer) ident(id *ast.Ident) string {
	obj := n.info.ObjectOf(id)
	if obj == nil {
		return id.Name
	}
	if name, ok := n.names[obj]; ok {
		return name
	}
	switch o := obj.(type) {
	case *types.Var:
		if o.IsField() {
			nm := o.Name()
			if nm == "MapSetDef" || nm == "SetForInterfaceDef" {
				return "inner"
			}
			return nm
		}
		if o.Parent() != nil && o.Parent() != o.Pkg().Scope() {
			n.nLocal++
			name := fmt.Sprintf("v%d", n.nLocal)
			n.names[obj] = name
			return name
		}
		return TwinName(o.Name())
	case *types.Func:
		return TwinName(o.Name())
	case *types.TypeName:
		return "T:" + kindOf(o.Type())
	case *types.Nil:
		return "nil"
	case *types.Const:
		return id.Name
	case *types.Builtin:
		return id.Name
	}
	return id.Name
}

func (n *normalizer) isType(e ast.Expr) bool {
	tv, ok := n.info.Types[e]
	return ok && tv.IsType()
}

// ptrArg recognises the wrapper idioms that build *Collection from a slice/map expression and returns that expression.
func (n *normalizer) ptrArg(e ast.Expr) (ast.Expr, bool) {
	call, ok := e.(*ast.CallExpr)
	if !ok || len(call.Args) != 1 || call.Ellipsis.IsValid() {
		return nil, false
	}
	fun := call.Fun
	for {
		switch f := fun.(type) {
		case *ast.IndexExpr:
			fun = f.X
			continue
		case *ast.IndexListExpr:
			fun = f.X
			continue
		}
		break
	}
	switch f := fun.(type) {
	case *ast.Ident:
		if f.Name == "StreamFromArray" {
			return call.Args[0], true
		}
		// any function of the repository whose body is the idiom itself: v := Collection(param); return &v
		if fo, isF := n.info.ObjectOf(f).(*types.Func); isF && PtrWrapperDecl != nil {
			if fd, fi := PtrWrapperDecl(fo); fd != nil && IsPtrWrapper(fi, fd) {
				return call.Args[0], true
			}
		}
	case *ast.SelectorExpr:
		if f.Sel.Name == "FromArray" {
			return call.Args[0], true
		}
	}
	return nil, false
}

func (n *normalizer) expr(e ast.Expr) {
	switch x := e.(type) {
	case nil:
		n.emit("_")
	case *ast.ParenExpr:
		n.expr(x.X)
	case *ast.Ident:
		if toks, has := n.inline[n.info.ObjectOf(x)]; has && n.info.ObjectOf(x) != nil {
			n.emit(toks...)
			return
		}
		n.emit(n.ident(x))
	case *ast.BasicLit:
		n.emit(x.Value)
	case *ast.StarExpr:
		if n.isType(x) {
			n.emit("T:" + kindOf(n.info.TypeOf(x)))
			return
		}
		n.emit("deref(")
		n.expr(x.X)
		n.emit(")")
	case *ast.UnaryExpr:
		if x.Op == token.AND {
			if id, ok := x.X.(*ast.Ident); ok && n.subst != nil {
				if toks, has := n.subst[n.info.ObjectOf(id)]; has {
					n.emit("ptr(")
					n.emit(toks...)
					n.emit(")")
					return
				}
			}
			n.emit("ptr(")
			n.expr(x.X)
			n.emit(")")
			return
		}
		n.emit(x.Op.String() + "(")
		n.expr(x.X)
		n.emit(")")
	case *ast.BinaryExpr:
		if x.Op == token.LOR || x.Op == token.LAND {
			// a chain of the same short-circuit operator is rendered flat, whatever its nesting (associative, and the
			// operands are evaluated in the same order)
			n.emit("(")
			for i, o := range chainOperands(x, x.Op) {
				if i > 0 {
					n.emit(x.Op.String())
				}
				n.expr(o)
			}
			n.emit(")")
			return
		}
		n.emit("(")
		n.expr(x.X)
		n.emit(x.Op.String())
		n.expr(x.Y)
		n.emit(")")
	case *ast.IndexExpr:
		if n.isType(x) {
			n.emit("T:" + kindOf(n.info.TypeOf(x)))
			return
		}
		// generic function instantiation: erase the type arguments
		if tv, ok := n.info.Types[x.Index]; ok && tv.IsType() {
			n.expr(x.X)
			return
		}
		n.expr(x.X)
		n.emit("[")
		n.expr(x.Index)
		n.emit("]")
	case *ast.IndexListExpr:
		if n.isType(x) {
			n.emit("T:" + kindOf(n.info.TypeOf(x)))
			return
		}
		n.expr(x.X)
	case *ast.SliceExpr:
		n.expr(x.X)
		n.emit("[")
		n.expr(x.Low)
		n.emit(":")
		n.expr(x.High)
		if x.Slice3 {
			n.emit(":")
			n.expr(x.Max)
		}
		n.emit("]")
	case *ast.TypeAssertExpr:
		// assertions only exist on the interface{} side: erased
		n.expr(x.X)
	case *ast.SelectorExpr:
		// method value / field selection
		if sel, ok := n.info.Selections[x]; ok {
			_ = sel
		}
		// X.AsMap() is handled at the call; here plain selection
		n.expr(x.X)
		n.emit("." + n.selName(x.Sel))
	case *ast.CallExpr:
		n.call(x)
	case *ast.CompositeLit:
		t := n.info.TypeOf(x)
		n.emit("lit:" + kindOf(t) + "{")
		for _, el := range x.Elts {
			if kv, ok := el.(*ast.KeyValueExpr); ok {
				if id, isId := kv.Key.(*ast.Ident); isId {
					if _, isStruct := t.Underlying().(*types.Struct); isStruct {
						n.emit(n.selName(id) + ":")
						n.expr(kv.Value)
						n.emit(",")
						continue
					}
				}
				n.expr(kv.Key)
				n.emit(":")
				n.expr(kv.Value)
			} else {
				// positional struct literal with a single embedded field
				if _, isStruct := t.Underlying().(*types.Struct); isStruct && len(x.Elts) == 1 {
					n.emit("inner:")
				}
				n.expr(el)
			}
			n.emit(",")
		}
		n.emit("}")
	case *ast.FuncLit:
		n.emit("func(")
		for _, f := range x.Type.Params.List {
			for _, nm := range f.Names {
				n.emit(n.ident(nm), ",")
			}
		}
		n.emit(")")
		n.block(x.Body)
	case *ast.KeyValueExpr:
		n.expr(x.Key)
		n.emit(":")
		n.expr(x.Value)
	case *ast.ArrayType, *ast.MapType, *ast.ChanType, *ast.FuncType, *ast.InterfaceType, *ast.StructType, *ast.Ellipsis:
		n.emit("T:" + kindOf(n.info.TypeOf(e)))
	default:
		n.emit(fmt.Sprintf("?%T", e))
	}
}

func (n *normalizer) selName(id *ast.Ident) string {
	if id.Name == "MapSetDef" || id.Name == "SetForInterfaceDef" {
		return "inner"
	}
	return TwinName(id.Name)
}

func (n *normalizer) call(x *ast.CallExpr) {
	// conversion?
	if n.isType(x.Fun) && len(x.Args) == 1 {
		to := n.info.TypeOf(x.Fun)
		from := n.info.TypeOf(x.Args[0])
		// collection ↔ underlying / twin collection: erased
		if from != nil && to != nil && kindOf(to) == kindOf(from) && (kindOf(to) == "slice" || kindOf(to) == "map") {
			n.expr(x.Args[0])
			return
		}
		n.emit("conv:" + kindOf(to) + "(")
		n.expr(x.Args[0])
		n.emit(")")
		return
	}
	// StreamSetFromMap(E) ≡ &StreamSet{inner: dup(E)}, and dup of a freshly built map is that map
	if id, ok := x.Fun.(*ast.Ident); ok && id.Name == "StreamSetFromMap" && len(x.Args) == 1 {
		n.emit("ptr(", "lit:struct:StreamSetDef{", "inner:")
		if inner, isCall := x.Args[0].(*ast.CallExpr); isCall && n.Fresh != nil && n.Fresh(inner) {
			n.expr(x.Args[0])
		} else {
			n.emit("DuplicateMap", "(")
			n.expr(x.Args[0])
			n.emit(")")
		}
		n.emit(",", "}", ")")
		return
	}
	if arg, ok := n.ptrArg(x); ok {
		n.emit("ptr(")
		n.expr(arg)
		n.emit(")")
		return
	}
	// X.AsMap() ≡ *X ; X.AsMapSet() ≡ X
	if sel, ok := x.Fun.(*ast.SelectorExpr); ok && len(x.Args) == 0 {
		switch sel.Sel.Name {
		case "AsMap":
			n.emit("deref(")
			n.expr(sel.X)
			n.emit(")")
			return
		case "AsMapSet":
			// the generic family's way from its SetDef interface back to the concrete set (the interface{} family's
			// methods return the concrete set directly): the identity on a set of the library
			if tv, okT := n.info.Types[sel.X]; okT && tv.Type != nil && strings.Contains(tv.Type.String(), "fpGo") {
				n.expr(sel.X)
				return
			}
		}
	}
	// builtins with a type argument
	if id, ok := x.Fun.(*ast.Ident); ok {
		if _, isB := n.info.ObjectOf(id).(*types.Builtin); isB && (id.Name == "make" || id.Name == "new") {
			n.emit(id.Name + "(" + kindOf(n.info.TypeOf(x.Args[0])))
			for _, a := range x.Args[1:] {
				n.emit(",")
				n.expr(a)
			}
			n.emit(")")
			return
		}
	}
	// slices.ContainsFunc(s, func(v T) bool { return A == v }) is slices.Contains(s, A) (the form forced on the
	// interface{} twin: interface{} does not satisfy comparable under the module's language version)
	if sel, ok := x.Fun.(*ast.SelectorExpr); ok && sel.Sel.Name == "ContainsFunc" && len(x.Args) == 2 {
		if pk, isPk := sel.X.(*ast.Ident); isPk && pk.Name == "slices" {
			if lit, isLit := x.Args[1].(*ast.FuncLit); isLit && lit.Type.Params.NumFields() == 1 && len(lit.Type.Params.List[0].Names) == 1 && len(lit.Body.List) == 1 {
				if ret, isRet := lit.Body.List[0].(*ast.ReturnStmt); isRet && len(ret.Results) == 1 {
					if be, isBE := ret.Results[0].(*ast.BinaryExpr); isBE && be.Op == token.EQL {
						prm := n.info.ObjectOf(lit.Type.Params.List[0].Names[0])
						var other ast.Expr
						if id, isID := be.X.(*ast.Ident); isID && n.info.ObjectOf(id) == prm {
							other = be.Y
						} else if id, isID := be.Y.(*ast.Ident); isID && n.info.ObjectOf(id) == prm {
							other = be.X
						}
						if other != nil {
							n.emit("slices", ".Contains", "(")
							n.expr(x.Args[0])
							n.emit(",")
							n.expr(other)
							n.emit(")")
							return
						}
					}
				}
			}
		}
	}
	if n.exprHelper(x) {
		return
	}
	if !n.helperBody(x) {
		n.expr(x.Fun)
	}
	n.emit("(")
	for i, a := range x.Args {
		if i > 0 {
			n.emit(",")
		}
		n.expr(a)
	}
	if x.Ellipsis.IsValid() {
		n.emit("...")
	}
	n.emit(")")
}

func (n *normalizer) block(b *ast.BlockStmt) {
	n.emit("{")
	stmts := b.List
	for i := 0; i < len(stmts); i++ {
		// idiom: v := E ; return v   /   v := E ; return &v   (v not used otherwise in these two statements)
		if i+1 < len(stmts) {
			if as, ok := stmts[i].(*ast.AssignStmt); ok && as.Tok == token.DEFINE && len(as.Lhs) == 1 && len(as.Rhs) == 1 {
				if ret, ok := stmts[i+1].(*ast.ReturnStmt); ok && len(ret.Results) == 1 && i+2 == len(stmts) {
					lhs, _ := as.Lhs[0].(*ast.Ident)
					if lhs != nil {
						if id, ok := ret.Results[0].(*ast.Ident); ok && n.info.ObjectOf(id) == n.info.ObjectOf(lhs) {
							n.emit("return")
							n.expr(as.Rhs[0])
							n.emit(";")
							i++
							continue
						}
						if u, ok := ret.Results[0].(*ast.UnaryExpr); ok && u.Op == token.AND {
							if id, ok := u.X.(*ast.Ident); ok && n.info.ObjectOf(id) == n.info.ObjectOf(lhs) {
								n.emit("return", "ptr(")
								n.expr(as.Rhs[0])
								n.emit(")", ";")
								i++
								continue
							}
						}
					}
				}
			}
		}
		// idiom: a temporary - `v := E` (or `var v T = E`) used exactly once, as the whole value assigned or returned by the
		// very next statement (`w := v`, `x = v`, `var w T = v`, `return v`)
		if lhs, rhs := defOf(stmts[i]); lhs != nil && i+1 < len(stmts) && n.info.ObjectOf(lhs) != nil {
			obj := n.info.ObjectOf(lhs)
			uses := 0
			for _, later := range stmts[i+1:] {
				ast.Inspect(later, func(nd ast.Node) bool {
					if y, isID := nd.(*ast.Ident); isID && n.info.ObjectOf(y) == obj {
						uses++
					}
					return true
				})
			}
			// … or as the whole argument of the pointer-wrapping idiom in the next return (`return FromArray(v)` ≡ `return &v`)
			ptrOperand := false
			if rs, isRet := stmts[i+1].(*ast.ReturnStmt); isRet && len(rs.Results) == 1 {
				if call, isCall := rs.Results[0].(*ast.CallExpr); isCall {
					if arg, okP := n.ptrArg(call); okP {
						if id, isID := arg.(*ast.Ident); isID && n.info.ObjectOf(id) == obj {
							ptrOperand = true
						}
					}
				}
			}
			if uses == 1 && (ptrOperand || wholeOperand(n.info, stmts[i+1], obj)) {
				save := n.out
				n.out = nil
				n.expr(rhs)
				toks := n.out
				n.out = save
				if n.inline == nil {
					n.inline = map[types.Object][]string{}
				}
				n.inline[obj] = toks
				continue
			}
		}
		// idiom: v := E ; … exactly one later use of v in this block, namely &v (x = &v / f(&v))
		if as, ok := stmts[i].(*ast.AssignStmt); ok && as.Tok == token.DEFINE && len(as.Lhs) == 1 && len(as.Rhs) == 1 && i+1 < len(stmts) {
			if lhs, _ := as.Lhs[0].(*ast.Ident); lhs != nil && n.info.ObjectOf(lhs) != nil {
				obj := n.info.ObjectOf(lhs)
				uses, addr := 0, 0
				for _, later := range stmts[i+1:] {
					ast.Inspect(later, func(nd ast.Node) bool {
						switch y := nd.(type) {
						case *ast.UnaryExpr:
							if id, isID := y.X.(*ast.Ident); isID && y.Op == token.AND && n.info.ObjectOf(id) == obj {
								addr++
							}
						case *ast.Ident:
							if n.info.ObjectOf(y) == obj {
								uses++
							}
						}
						return true
					})
				}
				if uses == 1 && addr == 1 {
					save := n.out
					n.out = nil
					n.expr(as.Rhs[0])
					toks := n.out
					n.out = save
					if n.subst == nil {
						n.subst = map[types.Object][]string{}
					}
					n.subst[obj] = toks
					continue
				}
			}
		}
		// idiom (interface{} twin): `x := y.(T)` - the assertion is erased, so x is y
		if as, ok := stmts[i].(*ast.AssignStmt); ok && as.Tok == token.DEFINE && len(as.Lhs) == 1 && len(as.Rhs) == 1 {
			if n.aliasDef(as, stmts[i+1:]) {
				continue
			}
		}
		// idiom: consecutive guards with the same body (`if A { continue }; [x := y.(T);] if B { continue }`) are one
		// guard on `A || B`
		if g, ok := stmts[i].(*ast.IfStmt); ok && g.Init == nil && g.Else == nil {
			conds := []ast.Expr{g.Cond}
			j := i + 1
			for j < len(stmts) {
				if as, isAs := stmts[j].(*ast.AssignStmt); isAs && as.Tok == token.DEFINE && len(as.Lhs) == 1 && len(as.Rhs) == 1 && j+1 < len(stmts) {
					if g2, isG := stmts[j+1].(*ast.IfStmt); isG && g2.Init == nil && g2.Else == nil && sameSimpleBody(g.Body, g2.Body) && n.aliasDef(as, stmts[j+1:]) {
						j++
						continue
					}
					break
				}
				g2, isG := stmts[j].(*ast.IfStmt)
				if !isG || g2.Init != nil || g2.Else != nil || !sameSimpleBody(g.Body, g2.Body) {
					break
				}
				conds = append(conds, g2.Cond)
				j++
			}
			if len(conds) > 1 {
				n.emit("if", "(")
				first := true
				for _, cnd := range conds {
					for _, o := range chainOperands(cnd, token.LOR) {
						if !first {
							n.emit("||")
						}
						first = false
						n.expr(o)
					}
				}
				n.emit(")")
				n.block(g.Body)
				i = j - 1
				continue
			}
		}
		n.stmt(stmts[i])
	}
	n.emit("}")
}

// chainOperands: the operands of a (possibly nested, parenthesised) chain of the short-circuit operator op, in order.
func chainOperands(e ast.Expr, op token.Token) []ast.Expr {
	for {
		pe, ok := e.(*ast.ParenExpr)
		if !ok {
			break
		}
		e = pe.X
	}
	if b, ok := e.(*ast.BinaryExpr); ok && b.Op == op {
		return append(chainOperands(b.X, op), chainOperands(b.Y, op)...)
	}
	return []ast.Expr{e}
}

// sameSimpleBody: both blocks consist of the same single jump (`continue`, `break`, a bare `return`).
func sameSimpleBody(a, b *ast.BlockStmt) bool {
	if len(a.List) != 1 || len(b.List) != 1 {
		return false
	}
	switch x := a.List[0].(type) {
	case *ast.BranchStmt:
		y, ok := b.List[0].(*ast.BranchStmt)
		return ok && x.Tok == y.Tok && x.Label == nil && y.Label == nil
	case *ast.ReturnStmt:
		y, ok := b.List[0].(*ast.ReturnStmt)
		return ok && len(x.Results) == 0 && len(y.Results) == 0
	}
	return false
}

// aliasDef: `x := y.(T)` with y an identifier and x never assigned afterwards: x is rendered as y (type assertions are
// erased in the normal form); reports whether the definition was absorbed.
func (n *normalizer) aliasDef(as *ast.AssignStmt, later []ast.Stmt) bool {
	lhs, isID := as.Lhs[0].(*ast.Ident)
	ta, isTA := as.Rhs[0].(*ast.TypeAssertExpr)
	if !isID || !isTA || ta.Type == nil || n.info.ObjectOf(lhs) == nil {
		return false
	}
	src, isSrc := ta.X.(*ast.Ident)
	if !isSrc {
		return false
	}
	obj, srcObj := n.info.ObjectOf(lhs), n.info.ObjectOf(src)
	reassigned := false
	for _, st := range later {
		ast.Inspect(st, func(nd ast.Node) bool {
			switch y := nd.(type) {
			case *ast.AssignStmt:
				for _, l := range y.Lhs {
					if id, ok := l.(*ast.Ident); ok && (n.info.ObjectOf(id) == obj || n.info.ObjectOf(id) == srcObj) {
						reassigned = true
					}
				}
			case *ast.UnaryExpr:
				if id, ok := y.X.(*ast.Ident); ok && y.Op == token.AND && (n.info.ObjectOf(id) == obj || n.info.ObjectOf(id) == srcObj) {
					reassigned = true
				}
			}
			return true
		})
	}
	if reassigned {
		return false
	}
	save := n.out
	n.out = nil
	n.expr(src)
	toks := n.out
	n.out = save
	if n.inline == nil {
		n.inline = map[types.Object][]string{}
	}
	n.inline[obj] = toks
	return true
}

func (n *normalizer) stmt(s ast.Stmt) {
	switch x := s.(type) {
	case *ast.BlockStmt:
		n.block(x)
	case *ast.ExprStmt:
		n.expr(x.X)
		n.emit(";")
	case *ast.AssignStmt:
		// right side first so that uses are numbered before new definitions
		var rhs [][]string
		for _, r := range x.Rhs {
			save := n.out
			n.out = nil
			n.expr(r)
			rhs = append(rhs, n.out)
			n.out = save
		}
		for i, l := range x.Lhs {
			if i > 0 {
				n.emit(",")
			}
			n.expr(l)
		}
		tok := x.Tok.String()
		if x.Tok == token.DEFINE {
			tok = "="
		}
		n.emit(tok)
		for i, r := range rhs {
			if i > 0 {
				n.emit(",")
			}
			n.emit(r...)
		}
		n.emit(";")
	case *ast.DeclStmt:
		if gd, ok := x.Decl.(*ast.GenDecl); ok {
			for _, sp := range gd.Specs {
				if vs, ok := sp.(*ast.ValueSpec); ok {
					for i, nm := range vs.Names {
						if i < len(vs.Values) && len(vs.Names) == len(vs.Values) {
							// `var x T = e` ≡ `x := e` (the declared type is part of what the duplication erases)
							save := n.out
							n.out = nil
							n.expr(vs.Values[i])
							rhs := n.out
							n.out = save
							n.emit(n.ident(nm), "=")
							n.emit(rhs...)
							n.emit(";")
							continue
						}
						n.emit("var", n.ident(nm))
						if i < len(vs.Values) {
							n.emit("=")
							n.expr(vs.Values[i])
						} else {
							n.emit(":" + kindOf(n.info.TypeOf(vs.Type)))
						}
						n.emit(";")
					}
				}
			}
		}
	case *ast.ReturnStmt:
		n.emit("return")
		for i, r := range x.Results {
			if i > 0 {
				n.emit(",")
			}
			n.expr(r)
		}
		n.emit(";")
	case *ast.IfStmt:
		// a constant condition (`if debug { … }` with a false package constant): only the live branch exists
		if tv, ok := n.info.Types[x.Cond]; ok && tv.Value != nil && tv.Value.Kind() == constant.Bool && x.Init == nil {
			if constant.BoolVal(tv.Value) {
				n.block(x.Body)
			} else if x.Else != nil {
				n.stmt(x.Else)
			}
			return
		}
		n.emit("if")
		if x.Init != nil {
			n.stmt(x.Init)
		}
		n.expr(x.Cond)
		n.block(x.Body)
		if x.Else != nil {
			n.emit("else")
			n.stmt(x.Else)
		}
	case *ast.ForStmt:
		n.emit("for")
		if x.Init != nil {
			n.stmt(x.Init)
		}
		n.expr(x.Cond)
		n.emit(";")
		if x.Post != nil {
			n.stmt(x.Post)
		}
		n.block(x.Body)
	case *ast.RangeStmt:
		n.emit("range")
		save := n.out
		n.out = nil
		n.expr(x.X)
		rx := n.out
		n.out = save
		n.expr(x.Key)
		n.emit(",")
		n.expr(x.Value)
		n.emit("in")
		n.emit(rx...)
		n.block(x.Body)
	case *ast.IncDecStmt:
		n.expr(x.X)
		n.emit(x.Tok.String(), ";")
	case *ast.BranchStmt:
		n.emit(x.Tok.String(), ";")
	case *ast.SwitchStmt:
		// cases in source order (a tagless switch takes the first case that holds: order is behaviour)
		n.emit("switch")
		if x.Init != nil {
			n.stmt(x.Init)
		}
		if x.Tag != nil {
			n.expr(x.Tag)
		}
		n.emit("{")
		for _, cs := range x.Body.List {
			cc, ok := cs.(*ast.CaseClause)
			if !ok {
				continue
			}
			if cc.List == nil {
				n.emit("default", ":")
			} else {
				n.emit("case")
				for i, e := range cc.List {
					if i > 0 {
						n.emit(",")
					}
					n.expr(e)
				}
				n.emit(":")
			}
			for _, st := range cc.Body {
				n.stmt(st)
			}
		}
		n.emit("}")
	case *ast.TypeSwitchStmt:
		n.emit("typeswitch")
		if x.Init != nil {
			n.stmt(x.Init)
		}
		n.stmt(x.Assign)
		n.emit("{")
		for _, cs := range x.Body.List {
			cc, ok := cs.(*ast.CaseClause)
			if !ok {
				continue
			}
			if cc.List == nil {
				n.emit("default", ":")
			} else {
				n.emit("case")
				for i, e := range cc.List {
					if i > 0 {
						n.emit(",")
					}
					if t := n.info.TypeOf(e); t != nil && n.isType(e) {
						n.emit("type:" + kindOf(t))
					} else {
						n.expr(e)
					}
				}
				n.emit(":")
			}
			for _, st := range cc.Body {
				n.stmt(st)
			}
		}
		n.emit("}")
	case *ast.DeferStmt:
		n.emit("defer")
		n.expr(x.Call)
		n.emit(";")
	case *ast.GoStmt:
		n.emit("go")
		n.expr(x.Call)
		n.emit(";")
	case *ast.SendStmt:
		n.expr(x.Chan)
		n.emit("<-")
		n.expr(x.Value)
		n.emit(";")
	case *ast.LabeledStmt:
		n.emit("label:")
		n.stmt(x.Stmt)
	case *ast.SelectStmt:
		n.emit(fmt.Sprintf("?%T;", s))
	case *ast.EmptyStmt:
	default:
		n.emit(fmt.Sprintf("?%T;", s))
	}
}

// helperDepth bounds the nesting of helper bodies rendered in place of helper names.
var helperDepth = 0

// helperBody: a call of an unexported package-level function of the repository is rendered with the normal form of the
// callee's body in place of its name, so that two twins that delegate to differently named but equally behaving private
// helpers (streamHasItems / setItemHasItems) still agree, and two that delegate to different helpers do not.
func (n *normalizer) helperBody(x *ast.CallExpr) bool {
	if PtrWrapperDecl == nil || helperDepth >= 2 {
		return false
	}
	fun := x.Fun
	for {
		switch f := fun.(type) {
		case *ast.IndexExpr:
			fun = f.X
			continue
		case *ast.IndexListExpr:
			fun = f.X
			continue
		case *ast.ParenExpr:
			fun = f.X
			continue
		}
		break
	}
	id, ok := fun.(*ast.Ident)
	if !ok {
		return false
	}
	fo, ok := n.info.ObjectOf(id).(*types.Func)
	if !ok || fo.Exported() {
		return false
	}
	if sig, okS := fo.Type().(*types.Signature); !okS || sig.Recv() != nil {
		return false
	}
	fd, fi := PtrWrapperDecl(fo)
	if fd == nil || fd.Body == nil {
		return false
	}
	helperDepth++
	body := NormalForm(fi, fd, n.Fresh)
	helperDepth--
	n.emit("helper{")
	n.emit(body...)
	n.emit("}")
	return true
}

// exprHelper: a call of an unexported package-level function of the repository whose body is a single `return E` is
// rendered as E with the parameters replaced by the (rendered) arguments - a private constructor such as
// `newSetOf(m) = &Set{inner: Inner(m)}` then reads exactly like the literal written out at the call site. Only when
// every parameter occurs at most once in E (no duplicated or dropped evaluation).
func (n *normalizer) exprHelper(x *ast.CallExpr) bool {
	if PtrWrapperDecl == nil || helperDepth >= 2 {
		return false
	}
	fun := x.Fun
	for {
		switch f := fun.(type) {
		case *ast.IndexExpr:
			fun = f.X
			continue
		case *ast.IndexListExpr:
			fun = f.X
			continue
		case *ast.ParenExpr:
			fun = f.X
			continue
		}
		break
	}
	var id *ast.Ident
	var recvArg ast.Expr
	switch f := fun.(type) {
	case *ast.Ident:
		id = f
	case *ast.SelectorExpr:
		// a method of the repository called on a plain operand: the receiver is its first parameter
		if sel, isSel := n.info.Selections[f]; isSel && sel.Kind() == types.MethodVal && len(sel.Index()) == 1 && simpleOperand(f.X) {
			id, recvArg = f.Sel, f.X
		}
	}
	if id == nil {
		return false
	}
	fo, ok := n.info.ObjectOf(id).(*types.Func)
	if !ok || fo.Exported() {
		return false
	}
	fo = fo.Origin()
	sig, okS := fo.Type().(*types.Signature)
	if !okS || (sig.Recv() != nil) != (recvArg != nil) || sig.Variadic() {
		return false
	}
	fd, fi := PtrWrapperDecl(fo)
	if fd == nil || fd.Body == nil || len(fd.Body.List) != 1 {
		return false
	}
	ret, isRet := fd.Body.List[0].(*ast.ReturnStmt)
	if !isRet || len(ret.Results) != 1 {
		return false
	}
	var params []types.Object
	args := x.Args
	if recvArg != nil {
		if fd.Recv == nil || len(fd.Recv.List) != 1 || len(fd.Recv.List[0].Names) != 1 {
			return false
		}
		params = append(params, fi.ObjectOf(fd.Recv.List[0].Names[0]))
		args = append([]ast.Expr{recvArg}, args...)
	}
	for _, f := range fd.Type.Params.List {
		for _, nm := range f.Names {
			params = append(params, fi.ObjectOf(nm))
		}
	}
	if len(params) != len(args) {
		return false
	}
	uses := map[types.Object]int{}
	ast.Inspect(ret.Results[0], func(nd ast.Node) bool {
		if idn, isI := nd.(*ast.Ident); isI {
			if o := fi.ObjectOf(idn); o != nil {
				uses[o]++
			}
		}
		return true
	})
	for i, prm := range params {
		if uses[prm] != 1 && !simpleOperand(args[i]) {
			return false
		}
	}
	sub := &normalizer{info: fi, names: map[types.Object]string{}, Fresh: n.Fresh, inline: map[types.Object][]string{}}
	for i, prm := range params {
		mark := len(n.out)
		n.expr(args[i])
		sub.inline[prm] = append([]string{}, n.out[mark:]...)
		n.out = n.out[:mark]
	}
	helperDepth++
	sub.expr(ret.Results[0])
	helperDepth--
	n.emit(sub.out...)
	return true
}

// simpleOperand: an identifier, a field selection chain or a literal - evaluating it twice, or not at all, changes nothing.
func simpleOperand(e ast.Expr) bool {
	switch x := e.(type) {
	case *ast.Ident, *ast.BasicLit:
		return true
	case *ast.ParenExpr:
		return simpleOperand(x.X)
	case *ast.SelectorExpr:
		return simpleOperand(x.X)
	case *ast.StarExpr:
		return simpleOperand(x.X)
	}
	return false
}

// PtrWrapperDecl gives the declaration (and its type information) of a function of the repository; set by the rule
// that uses the normaliser.
var PtrWrapperDecl func(*types.Func) (*ast.FuncDecl, *types.Info)

// IsPtrWrapper: fd is `func F(param X) *C { v := C(param); return &v }` with C a slice/map collection over X's kind.
func IsPtrWrapper(info *types.Info, fd *ast.FuncDecl) bool {
	if fd == nil || fd.Recv != nil || fd.Body == nil || len(fd.Body.List) != 2 || fd.Type.Params.NumFields() != 1 || len(fd.Type.Params.List[0].Names) != 1 {
		return false
	}
	prm := info.ObjectOf(fd.Type.Params.List[0].Names[0])
	as, ok := fd.Body.List[0].(*ast.AssignStmt)
	if !ok || as.Tok != token.DEFINE || len(as.Lhs) != 1 || len(as.Rhs) != 1 {
		return false
	}
	v, ok := as.Lhs[0].(*ast.Ident)
	conv, ok2 := as.Rhs[0].(*ast.CallExpr)
	if !ok || !ok2 || len(conv.Args) != 1 {
		return false
	}
	if tv, okT := info.Types[conv.Fun]; !okT || !tv.IsType() {
		return false
	}
	to, from := info.TypeOf(conv.Fun), info.TypeOf(conv.Args[0])
	if kindOf(to) != kindOf(from) || kindOf(to) != "slice" && kindOf(to) != "map" {
		return false
	}
	if a, isI := conv.Args[0].(*ast.Ident); !isI || info.ObjectOf(a) != prm {
		return false
	}
	ret, ok := fd.Body.List[1].(*ast.ReturnStmt)
	if !ok || len(ret.Results) != 1 {
		return false
	}
	u, ok := ret.Results[0].(*ast.UnaryExpr)
	if !ok || u.Op != token.AND {
		return false
	}
	r, ok := u.X.(*ast.Ident)
	return ok && info.ObjectOf(r) == info.ObjectOf(v)
}

// NormalForm returns the canonical token list of fd's body.
func NormalForm(info *types.Info, fd *ast.FuncDecl, fresh func(*ast.CallExpr) bool) []string {
	n := &normalizer{info: info, names: map[types.Object]string{}, Fresh: fresh}
	if fd.Recv != nil {
		for _, f := range fd.Recv.List {
			for _, nm := range f.Names {
				n.names[info.ObjectOf(nm)] = "recv"
			}
		}
	}
	k := 0
	for _, f := range fd.Type.Params.List {
		for _, nm := range f.Names {
			k++
			n.names[info.ObjectOf(nm)] = fmt.Sprintf("p%d", k)
		}
	}
	if fd.Body == nil {
		return nil
	}
	n.block(fd.Body)
	return n.out
}


// defOf: s defines exactly one local with a value (`v := E` / `var v T = E`).
func defOf(s ast.Stmt) (*ast.Ident, ast.Expr) {
	switch x := s.(type) {
	case *ast.AssignStmt:
		if x.Tok == token.DEFINE && len(x.Lhs) == 1 && len(x.Rhs) == 1 {
			if id, ok := x.Lhs[0].(*ast.Ident); ok && id.Name != "_" {
				return id, x.Rhs[0]
			}
		}
	case *ast.DeclStmt:
		if gd, ok := x.Decl.(*ast.GenDecl); ok && gd.Tok == token.VAR && len(gd.Specs) == 1 {
			if vs, ok := gd.Specs[0].(*ast.ValueSpec); ok && len(vs.Names) == 1 && len(vs.Values) == 1 && vs.Names[0].Name != "_" {
				return vs.Names[0], vs.Values[0]
			}
		}
	}
	return nil, nil
}

// wholeOperand: in statement s the object is the entire value assigned, declared or returned (nothing else is evaluated
// between its definition and that use).
func wholeOperand(info *types.Info, s ast.Stmt, obj types.Object) bool {
	is := func(e ast.Expr) bool {
		for {
			p, ok := e.(*ast.ParenExpr)
			if !ok {
				break
			}
			e = p.X
		}
		id, ok := e.(*ast.Ident)
		return ok && info.ObjectOf(id) == obj
	}
	switch x := s.(type) {
	case *ast.ReturnStmt:
		return len(x.Results) == 1 && is(x.Results[0])
	case *ast.AssignStmt:
		if len(x.Rhs) != 1 || len(x.Lhs) != 1 || !is(x.Rhs[0]) {
			return false
		}
		_, plain := x.Lhs[0].(*ast.Ident)
		return plain
	case *ast.DeclStmt:
		if _, rhs := defOf(s); rhs != nil {
			return is(rhs)
		}
	case *ast.IfStmt:
		// `found := E; if found {` / `if !found {`: the condition is the temporary itself (possibly negated)
		if x.Init != nil {
			return false
		}
		cond := x.Cond
		for {
			if pe, ok := cond.(*ast.ParenExpr); ok {
				cond = pe.X
				continue
			}
			if ue, ok := cond.(*ast.UnaryExpr); ok && ue.Op == token.NOT {
				cond = ue.X
				continue
			}
			break
		}
		return is(cond)
	}
	return false
}
