package core

import (
	"encoding/json"
	"fmt"
	"os"
	"path/filepath"
	"sort"
	"strings"
	"time"
)

type Status int

const (
	OK Status = iota
	Violation
	Undecided
)

func (s Status) String() string {
	switch s {
	case OK:
		return "discharged"
	case Violation:
		return "VIOLATED"
	}
	return "UNDECIDED"
}

// Ob is one obligation: a rule instance at a construct.
type Ob struct {
	Rule   string `json:"rule"`
	Key    string `json:"key"` // position-free instance key: function / construct
	Pos    string `json:"pos"`
	Status string `json:"status"`
	Detail string `json:"detail,omitempty"`
	st     Status
}

// KnownFinding is one entry of /verif/known_findings.json.
type KnownFinding struct {
	Property string `json:"property"`
	Rule     string `json:"rule"`
	Key      string `json:"key"`
	Status   string `json:"status"` // "known" or "fixed"
	Commit   string `json:"commit,omitempty"`
	What     string `json:"what"`
}

// Ctx collects the obligations of one property run.
type Ctx struct {
	Prop      string
	Tier      string
	P         *Prog
	Obs       []*Ob
	floors    map[string]int
	ruleDoc   map[string]string
	ruleOrder []string
	funcs     map[string]bool
	Notes     []string
	Assume    []string
	Extra     map[string]interface{}
	start     time.Time
}

func NewCtx(prop, tier string, p *Prog) *Ctx {
	return &Ctx{Prop: prop, Tier: tier, P: p, floors: map[string]int{}, ruleDoc: map[string]string{}, funcs: map[string]bool{}, Extra: map[string]interface{}{}, start: time.Now()}
}

// Rule declares a rule with its documentation and the minimum number of
// instances that must be enumerated (confirmed by reading the code).
func (c *Ctx) Rule(id, doc string, floor int) {
	if _, ok := c.ruleDoc[id]; !ok {
		c.ruleOrder = append(c.ruleOrder, id)
	}
	c.ruleDoc[id] = doc
	c.floors[id] = floor
}

func (c *Ctx) add(rule, key, pos, detail string, st Status) {
	if _, ok := c.ruleDoc[rule]; !ok {
		panic("undeclared rule " + rule)
	}
	c.Obs = append(c.Obs, &Ob{Rule: rule, Key: key, Pos: pos, Detail: detail, st: st, Status: st.String()})
}
func (c *Ctx) Pass(rule, key, pos, detail string)    { c.add(rule, key, pos, detail, OK) }
func (c *Ctx) Fail(rule, key, pos, detail string)    { c.add(rule, key, pos, detail, Violation) }
func (c *Ctx) Unknown(rule, key, pos, detail string) { c.add(rule, key, pos, detail, Undecided) }

// Check records Pass when ok, Fail otherwise.
func (c *Ctx) Check(ok bool, rule, key, pos, okDetail, failDetail string) bool {
	if ok {
		c.Pass(rule, key, pos, okDetail)
	} else {
		c.Fail(rule, key, pos, failDetail)
	}
	return ok
}

// Analysed records a function as covered by this run.
func (c *Ctx) Analysed(names ...string) {
	for _, n := range names {
		c.funcs[n] = true
	}
}

func (c *Ctx) Note(format string, a ...interface{}) {
	c.Notes = append(c.Notes, fmt.Sprintf(format, a...))
}

func loadKnown(verifDir string) ([]KnownFinding, error) {
	b, err := os.ReadFile(filepath.Join(verifDir, "known_findings.json"))
	if err != nil {
		if os.IsNotExist(err) {
			return nil, nil
		}
		return nil, err
	}
	var out struct {
		Findings []KnownFinding `json:"findings"`
	}
	if err := json.Unmarshal(b, &out); err != nil {
		return nil, err
	}
	return out.Findings, nil
}

// Import copies into c, under the rule id asRule, the obligations that the run sub (of another property) recorded for
// fromRule and whose key satisfies match. An obligation that is a recorded known finding of the source property is
// not imported (it is reported by its own property). Returns the number of obligations imported.
func (c *Ctx) Import(sub *Ctx, fromRule, asRule string, match func(key string) bool, verifDir string) int {
	known, _ := loadKnown(verifDir)
	n := 0
	for _, o := range sub.Obs {
		if o.Rule != fromRule || !match(o.Key) {
			continue
		}
		skip := false
		if o.st != OK {
			for _, k := range known {
				if k.Status == "known" && k.Property == sub.Prop && k.Rule == o.Rule && k.Key == o.Key {
					skip = true
				}
			}
		}
		if skip {
			continue
		}
		c.add(asRule, o.Key, o.Pos, o.Detail, o.st)
		n++
	}
	for f := range sub.funcs {
		c.funcs[f] = true
	}
	return n
}

// RuleIDs returns the declared rules in declaration order.
func (c *Ctx) RuleIDs() []string { return append([]string{}, c.ruleOrder...) }

// RuleDoc returns the documentation of a declared rule.
func (c *Ctx) RuleDoc(id string) string { return c.ruleDoc[id] }

// Finish prints the verdict lines, writes evidence + replay files and returns the exit code.
func (c *Ctx) Finish(verifDir string, seed int, explanation string, trusted []string) int {
	known, err := loadKnown(verifDir)
	if err != nil {
		fmt.Printf("ERROR cannot read known_findings.json: %v\n", err)
		return 2
	}
	isKnown := func(o *Ob) *KnownFinding {
		for i := range known {
			k := &known[i]
			if k.Status == "known" && k.Property == c.Prop && k.Rule == o.Rule && k.Key == o.Key {
				return k
			}
		}
		return nil
	}
	// floors: a rule that enumerated fewer instances than confirmed by reading fails.
	counts := map[string]int{}
	for _, o := range c.Obs {
		counts[o.Rule]++
	}
	for _, r := range c.ruleOrder {
		if counts[r] < c.floors[r] {
			c.Obs = append(c.Obs, &Ob{Rule: r, Key: "instance-floor", Pos: "-", st: Undecided, Status: Undecided.String(),
				Detail: fmt.Sprintf("rule enumerated %d instances, fewer than the %d confirmed by reading: anchors no longer resolve, the rule would pass vacuously", counts[r], c.floors[r])})
		}
	}
	sort.SliceStable(c.Obs, func(i, j int) bool {
		if c.Obs[i].Rule != c.Obs[j].Rule {
			return c.Obs[i].Rule < c.Obs[j].Rule
		}
		return c.Obs[i].Key < c.Obs[j].Key
	})
	replayDir := filepath.Join(verifDir, "evidence", "replay")
	os.MkdirAll(replayDir, 0o755)
	old, _ := filepath.Glob(filepath.Join(replayDir, c.Prop+"-*.json"))
	for _, f := range old {
		os.Remove(f)
	}
	nViol, nKnown, nOK := 0, 0, 0
	type ruleStat struct {
		Rule       string `json:"rule"`
		Doc        string `json:"doc"`
		Floor      int    `json:"instance_floor"`
		Instances  int    `json:"instances"`
		Discharged int    `json:"discharged"`
		Violated   int    `json:"violated"`
		Known      int    `json:"known_findings"`
	}
	stats := map[string]*ruleStat{}
	for _, r := range c.ruleOrder {
		stats[r] = &ruleStat{Rule: r, Doc: c.ruleDoc[r], Floor: c.floors[r]}
	}
	var knownLines, violLines []string
	for _, o := range c.Obs {
		s := stats[o.Rule]
		s.Instances++
		switch o.st {
		case OK:
			nOK++
			s.Discharged++
		default:
			if k := isKnown(o); k != nil && o.st == Violation {
				nKnown++
				s.Known++
				o.Status = "KNOWN-FINDING"
				knownLines = append(knownLines, fmt.Sprintf("KNOWN-FINDING: property=%s rule=%s key=%s at %s: %s", c.Prop, o.Rule, o.Key, o.Pos, k.What))
				continue
			}
			nViol++
			s.Violated++
			path := filepath.Join(replayDir, fmt.Sprintf("%s-%d.json", c.Prop, nViol))
			b, _ := json.MarshalIndent(map[string]interface{}{"property": c.Prop, "rule": o.Rule, "rule_doc": c.ruleDoc[o.Rule], "key": o.Key, "pos": o.Pos, "status": o.st.String(), "detail": o.Detail}, "", " ")
			os.WriteFile(path, b, 0o644)
			violLines = append(violLines, fmt.Sprintf("  %s %s [%s] %s at %s: %s", o.st, c.Prop, o.Rule, o.Key, o.Pos, o.Detail),
				fmt.Sprintf("VIOLATION property=%s replay=%s", c.Prop, path))
		}
	}
	for _, l := range knownLines {
		fmt.Println(l)
	}
	for _, l := range violLines {
		fmt.Println(l)
	}
	var rs []*ruleStat
	for _, r := range c.ruleOrder {
		rs = append(rs, stats[r])
	}
	var fn []string
	for f := range c.funcs {
		fn = append(fn, f)
	}
	sort.Strings(fn)
	// samples: up to 3 obligations per rule, written out.
	var samples []interface{}
	perRule := map[string]int{}
	for _, o := range c.Obs {
		if perRule[o.Rule] < 3 || o.st != OK {
			perRule[o.Rule]++
			samples = append(samples, o)
		}
	}
	cov := map[string]interface{}{
		"explanation":         explanation,
		"obligations":         len(c.Obs),
		"discharged":          nOK,
		"known_findings":      nKnown,
		"violated":            nViol,
		"rules":               rs,
		"functions_analysed":  fn,
		"n_functions":         len(fn),
		"samples":             samples,
		"trusted_base":        trusted,
		"checker_cmd":         fmt.Sprintf("/verif/run.sh %s %s", c.Prop, c.Tier),
		"notes":               c.Notes,
		"packages_loaded":     len(c.P.Pkgs),
		"ssa_functions_total": len(c.P.Funcs),
	}
	for k, v := range c.Extra {
		cov[k] = v
	}
	if c.Assume == nil {
		c.Assume = []string{}
	}
	c.Assume = append(c.Assume, "the analysed tree is /repo's working tree, non-test files of the three packages, default build tags, 64-bit gc sizes")
	ev := map[string]interface{}{
		"property_id": c.Prop,
		"tier":        c.Tier,
		"seed":        seed,
		"level":       "other",
		"coverage":    cov,
		"assumptions": c.Assume,
		"wall_s":      time.Since(c.start).Seconds(),
		"violations":  nViol,
	}
	if full := os.Getenv("FPCHECK_FULL"); full != "" {
		fb, _ := json.Marshal(c.Obs)
		os.WriteFile(filepath.Join(full, c.Prop+".obligations.json"), fb, 0o644)
	}
	b, _ := json.MarshalIndent(ev, "", " ")
	evPath := filepath.Join(verifDir, "evidence", c.Prop+".json")
	if err := os.WriteFile(evPath, b, 0o644); err != nil {
		fmt.Printf("ERROR cannot write evidence: %v\n", err)
		return 2
	}
	var parts []string
	for _, s := range rs {
		parts = append(parts, fmt.Sprintf("%s %d/%d", s.Rule, s.Discharged+s.Known, s.Instances))
	}
	fmt.Printf("%s %s: %d obligations, %d discharged, %d known findings, %d violations  [%s]\n", c.Prop, c.Tier, len(c.Obs), nOK, nKnown, nViol, strings.Join(parts, ", "))
	if nViol > 0 {
		return 1
	}
	return 0
}
