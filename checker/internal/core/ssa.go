package core

import (
	"fmt"
	"go/constant"
	"go/token"
	"go/types"
	"sort"
	"strings"

	"golang.org/x/tools/go/ssa"
)

// ---------------------------------------------------------------- A1 canonical paths

// FieldName returns the name of field i of the struct (or pointer to struct) type t.
func FieldName(t types.Type, i int) string {
	if p, ok := t.Underlying().(*types.Pointer); ok {
		t = p.Elem()
	}
	if s, ok := t.Underlying().(*types.Struct); ok && i < s.NumFields() {
		return canonicalField(typeName(t), s.Field(i).Name())
	}
	return fmt.Sprint(i)
}

// Path renders a canonical access path for v: locals/params by name, field
// selections dotted, loads and representation-preserving conversions looked
// through. Two values with the same path inside one function (or a function and
// its closures) denote the same storage.
func Path(v ssa.Value) string {
	switch x := v.(type) {
	case *ssa.Parameter:
		if e, ok := paramAsField[x]; ok && e.owner != nil {
			if i := strings.Index(e.key, "."); i >= 0 {
				return e.owner.Name() + e.key[i:]
			}
		}
		return x.Name()
	case *ssa.FreeVar:
		return x.Name()
	case *ssa.Alloc:
		if x.Comment != "" {
			return x.Comment
		}
		return "alloc"
	case *ssa.FieldAddr:
		if isGroupField(x.X.Type(), x.Field) {
			return Path(FieldOwner(x)) // the grouping struct itself reads as its owner
		}
		if o := FieldOwner(x); o != x.X && shadowedIn(o.Type(), x.X.Type(), x.Field) {
			// a field of an embedded component that the owner shadows with a field of its own: a different variable
			return Path(o) + "." + rawTypeName(x.X.Type()) + "." + FieldName(x.X.Type(), x.Field)
		}
		return Path(FieldOwner(x)) + "." + FieldName(x.X.Type(), x.Field)
	case *ssa.Field:
		if isGroupField(x.X.Type(), x.Field) {
			return Path(FieldOwner(x))
		}
		return Path(FieldOwner(x)) + "." + FieldName(x.X.Type(), x.Field)
	case *ssa.IndexAddr:
		if k, ok := x.Index.(*ssa.Const); ok && k.Value != nil {
			return Path(x.X) + "[" + k.Value.ExactString() + "]"
		}
		return Path(x.X) + "[]"
	case *ssa.Index:
		if k, ok := x.Index.(*ssa.Const); ok && k.Value != nil {
			return Path(x.X) + "[" + k.Value.ExactString() + "]"
		}
		return Path(x.X) + "[]"
	case *ssa.Lookup:
		return Path(x.X) + "[]"
	case *ssa.UnOp:
		if x.Op == token.MUL {
			return Path(x.X)
		}
		return x.Op.String() + Path(x.X)
	case *ssa.ChangeType:
		return Path(x.X)
	case *ssa.ChangeInterface:
		return Path(x.X)
	case *ssa.MakeInterface:
		return Path(x.X)
	case *ssa.Convert:
		return Path(x.X)
	case *ssa.Slice:
		return Path(x.X) + "[:]"
	case *ssa.Extract:
		return fmt.Sprintf("%s#%d", Path(x.Tuple), x.Index)
	case *ssa.Call:
		// an accessor returning a field of its receiver reads as that field of the receiver argument
		if b := thinBase(x); b != nil {
			if k := FieldKey(x); k != "" {
				if i := strings.Index(k, "."); i >= 0 {
					return Path(b) + k[i:]
				}
			}
		}
		if f := x.Call.StaticCallee(); f != nil {
			var as []string
			for _, a := range x.Call.Args {
				as = append(as, Path(a))
			}
			return Origin(f).Name() + "(" + strings.Join(as, ",") + ")"
		}
		if x.Call.IsInvoke() {
			return Path(x.Call.Value) + "." + x.Call.Method.Name() + "()"
		}
		if b, ok := x.Call.Value.(*ssa.Builtin); ok {
			var as []string
			for _, a := range x.Call.Args {
				as = append(as, Path(a))
			}
			return b.Name() + "(" + strings.Join(as, ",") + ")"
		}
		return "call(" + Path(x.Call.Value) + ")"
	case *ssa.Global:
		return x.Name()
	case *ssa.Const:
		if x.Value == nil {
			return "nil"
		}
		return x.Value.ExactString()
	case *ssa.Function:
		return FuncName(x)
	case *ssa.MakeClosure:
		return "closure:" + FuncName(x.Fn.(*ssa.Function))
	case *ssa.Phi:
		return "phi:" + x.Name()
	case *ssa.TypeAssert:
		return Path(x.X) + ".(" + x.AssertedType.String() + ")"
	case *ssa.BinOp:
		return "(" + Path(x.X) + x.Op.String() + Path(x.Y) + ")"
	}
	return fmt.Sprintf("?%T", v)
}

// Unwrap looks through representation-preserving wrappers.
func Unwrap(v ssa.Value) ssa.Value {
	for {
		switch x := v.(type) {
		case *ssa.ChangeType:
			v = x.X
		case *ssa.ChangeInterface:
			v = x.X
		case *ssa.MakeInterface:
			v = x.X
		default:
			return v
		}
	}
}

// Stores returns the store instructions whose address is exactly a.
func Stores(a ssa.Value) []*ssa.Store {
	var out []*ssa.Store
	if a.Referrers() == nil {
		return nil
	}
	for _, r := range *a.Referrers() {
		if s, ok := r.(*ssa.Store); ok && s.Addr == a {
			out = append(out, s)
		}
	}
	return out
}

// LoadSource: for a load `*alloc` of a local with exactly one store, returns the stored value.
func LoadSource(v ssa.Value) ssa.Value {
	u, ok := v.(*ssa.UnOp)
	if !ok || u.Op != token.MUL {
		return nil
	}
	if fa, isFA := u.X.(*ssa.FieldAddr); isFA {
		return fieldLoadSource(fa, u)
	}
	a, ok := u.X.(*ssa.Alloc)
	if !ok {
		return nil
	}
	st := Stores(a)
	if len(st) == 1 {
		return st[0].Val
	}
	if len(st) > 1 {
		return ReachingStore(a, u)
	}
	return nil
}

// fieldLoadSource: a load of field f of a local struct variable that never leaves the function as an address (it is only
// used through field addresses that are stored to / loaded from, and whole-struct loads): when exactly one store writes
// that field and it dominates the load, the load yields the stored value (`var s T; s.a = x; s.b = !s.a`).
func fieldLoadSource(fa *ssa.FieldAddr, u *ssa.UnOp) ssa.Value {
	a, ok := fa.X.(*ssa.Alloc)
	if !ok || a.Referrers() == nil {
		return nil
	}
	var stores []*ssa.Store
	for _, r := range *a.Referrers() {
		switch x := r.(type) {
		case *ssa.FieldAddr:
			if x.Referrers() == nil {
				return nil
			}
			for _, r2 := range *x.Referrers() {
				switch y := r2.(type) {
				case *ssa.Store:
					if y.Addr != ssa.Value(x) {
						return nil // the field address itself is stored somewhere
					}
					if x.Field == fa.Field {
						stores = append(stores, y)
					}
				case *ssa.UnOp:
					if y.Op != token.MUL {
						return nil
					}
				case *ssa.DebugRef:
				default:
					return nil
				}
			}
		case *ssa.UnOp:
			if x.Op != token.MUL {
				return nil
			}
		case *ssa.DebugRef:
		default:
			return nil
		}
	}
	if len(stores) == 1 && InstrDominates(stores[0], u) {
		return stores[0].Val
	}
	return nil
}

// isGroupField: field i of struct type t (or pointer to it) is a grouping struct whose fields count as fields of t.
func isGroupField(t types.Type, i int) bool {
	if pt, ok := t.Underlying().(*types.Pointer); ok {
		t = pt.Elem()
	}
	st, ok := t.Underlying().(*types.Struct)
	if !ok || i >= st.NumFields() || !transparentStruct(st.Field(i).Type()) {
		return false
	}
	_, mapped := nestedOwner[rawTypeName(st.Field(i).Type())]
	return mapped || sharedGroup[rawTypeName(st.Field(i).Type())]
}

// Resolve looks through wrappers and single-store local loads.
func Resolve(v ssa.Value) ssa.Value {
	for i := 0; i < 50; i++ {
		v = Unwrap(v)
		if s := LoadSource(v); s != nil {
			v = s
			continue
		}
		return v
	}
	return v
}

// ---------------------------------------------------------------- instruction helpers

// Instrs calls fn for every instruction of f (not nested closures).
func Instrs(f *ssa.Function, fn func(ssa.Instruction)) {
	for _, b := range f.Blocks {
		for _, ins := range b.Instrs {
			fn(ins)
		}
	}
}

// InstrsDeep visits f and all closures nested in it.
func InstrsDeep(f *ssa.Function, fn func(*ssa.Function, ssa.Instruction)) {
	Instrs(f, func(i ssa.Instruction) { fn(f, i) })
	for _, a := range f.AnonFuncs {
		InstrsDeep(a, fn)
	}
}

// Callee returns the generic origin of the static callee of a call, or nil.
func Callee(c *ssa.CallCommon) *ssa.Function {
	return Origin(c.StaticCallee())
}

// IsCallTo reports whether instruction/value v is a call (not defer/go) of the function with the given FuncName.
func IsCallTo(v interface{}, name string) bool {
	c, ok := v.(*ssa.Call)
	if !ok {
		return false
	}
	f := Callee(&c.Call)
	return f != nil && FuncName(f) == name
}

// StdCallee returns "pkgpath.Name" or "pkgpath.(Recv).Name" for calls into non-repo packages.
func StdCallee(c *ssa.CallCommon) string {
	if c.IsInvoke() {
		if c.Method.Pkg() != nil {
			return c.Method.Pkg().Path() + "." + recvName(c.Method) + c.Method.Name()
		}
		return c.Method.Name()
	}
	f := c.StaticCallee()
	if f == nil {
		if b, ok := c.Value.(*ssa.Builtin); ok {
			return "builtin." + b.Name()
		}
		return ""
	}
	f = Origin(f)
	if o := f.Object(); o != nil && o.Pkg() != nil {
		if fo, ok := o.(*types.Func); ok {
			return o.Pkg().Path() + "." + recvName(fo) + o.Name()
		}
	}
	return f.String()
}

func recvName(f *types.Func) string {
	sig, _ := f.Type().(*types.Signature)
	if sig == nil || sig.Recv() == nil {
		return ""
	}
	t := sig.Recv().Type()
	if p, ok := t.(*types.Pointer); ok {
		t = p.Elem()
	}
	if n, ok := t.(*types.Named); ok {
		return "(" + canonType(n.Obj().Name()) + ")."
	}
	return ""
}

// IsBuiltin reports whether call c invokes builtin name.
func IsBuiltin(c *ssa.CallCommon, name string) bool {
	b, ok := c.Value.(*ssa.Builtin)
	return ok && b.Name() == name
}

// ---------------------------------------------------------------- A2 dominance / edge facts

// Cond is a branch condition known to hold (True) or not hold at a block.
type Cond struct {
	V    ssa.Value
	True bool
	If   *ssa.If
}

// EdgeFacts returns the branch conditions that certainly hold on entry to b.
func EdgeFacts(b *ssa.BasicBlock) []Cond {
	var out []Cond
	for d := b.Idom(); d != nil; d = d.Idom() {
		if len(d.Instrs) == 0 {
			continue
		}
		iff, ok := d.Instrs[len(d.Instrs)-1].(*ssa.If)
		if !ok {
			continue
		}
		t, f := d.Succs[0], d.Succs[1]
		if t == f {
			continue
		}
		tOK := edgeDominates(d, t, b)
		fOK := edgeDominates(d, f, b)
		if tOK && !fOK {
			out = append(out, expandCond(Cond{iff.Cond, true, iff}, 0)...)
		} else if fOK && !tOK {
			out = append(out, expandCond(Cond{iff.Cond, false, iff}, 0)...)
		}
	}
	return out
}

// expandCond decomposes a condition that is a materialised short-circuit value
// (go/ssa builds `a || b` / `a && b` used as a value - e.g. a tagless switch case - as a phi
// of a constant and the last operand): (a || b) false ⇒ a false and b false; (a && b) true ⇒ both true.
// ExpandCond exposes the decomposition of a decided condition into the operand facts it implies.
func ExpandCond(c Cond) []Cond { return expandCond(c, 0) }

func expandCond(c Cond, depth int) []Cond {
	out := []Cond{c}
	if depth > 4 {
		return out
	}
	n := Normalize(c)
	phi, ok := n.V.(*ssa.Phi)
	if ok && phi.Comment != "||" && phi.Comment != "&&" {
		// a boolean variable merged from several assignments: edges carrying the opposite constant cannot
		// be the source of the observed truth value; if one candidate remains, it has that truth value
		// (`for !done { …; done = step() }`: done observed true ⇒ the last step returned true)
		var cand ssa.Value
		nc := 0
		for _, e := range phi.Edges {
			if k, isK := e.(*ssa.Const); isK && k.Value != nil && k.Value.Kind() == constant.Bool {
				if constant.BoolVal(k.Value) != n.True {
					continue
				}
				nc = 99 // a constant of the observed value: nothing can be said
				continue
			}
			if cand == nil || cand == e {
				if cand == nil {
					nc++
				}
				cand = e
			} else {
				nc = 99
			}
		}
		if nc == 1 && cand != nil && cand != ssa.Value(phi) {
			out = append(out, expandCond(Cond{cand, n.True, c.If}, depth+1)...)
		}
		return out
	}
	if !ok {
		return out
	}
	or := phi.Comment == "||"
	if or == n.True {
		return out // (a||b) true or (a&&b) false tells nothing about the operands individually
	}
	for i, e := range phi.Edges {
		pred := phi.Block().Preds[i]
		if k, isK := e.(*ssa.Const); isK && k.Value != nil && k.Value.Kind() == constant.Bool {
			// this edge short-circuited: the operand tested in pred had the value of the constant
			if iff, isIf := pred.Instrs[len(pred.Instrs)-1].(*ssa.If); isIf {
				// the whole expression has the value opposite to this short-circuit constant, so this edge was NOT taken:
				// the branch condition in pred had the value that leads away from the phi block
				edgeVal := pred.Succs[0] == phi.Block()
				out = append(out, expandCond(Cond{iff.Cond, !edgeVal, iff}, depth+1)...)
			}
			continue
		}
		out = append(out, expandCond(Cond{e, n.True, c.If}, depth+1)...)
	}
	return out
}

// edgeDominates: every path from the entry to b traverses the edge d→s: s dominates b and
// every predecessor of s other than d is itself dominated by s (a back edge of a loop headed by s).
func edgeDominates(d, s, b *ssa.BasicBlock) bool {
	if !(s == b || s.Dominates(b)) {
		return false
	}
	nd := 0
	for _, p := range s.Preds {
		if p == d {
			nd++
			continue
		}
		if !(p == s || s.Dominates(p)) {
			return false
		}
	}
	return nd == 1
}

// RetVals returns the values returned by ret, looking through the result spill
// that go/ssa introduces in functions with defers (*t0 = v; rundefers; t = *t0; return t).
func RetVals(ret *ssa.Return) []ssa.Value {
	out := make([]ssa.Value, len(ret.Results))
	for i, r := range ret.Results {
		out[i] = r
		u, ok := r.(*ssa.UnOp)
		if !ok || u.Op != token.MUL {
			continue
		}
		a, ok := u.X.(*ssa.Alloc)
		if !ok {
			continue
		}
		// last store to a in this block before the return
		var last ssa.Value
		for _, ins := range ret.Block().Instrs {
			if st, ok := ins.(*ssa.Store); ok && st.Addr == a {
				// `return err` with a named result re-stores the cell's own value: not a definition
				if ld, isLd := st.Val.(*ssa.UnOp); isLd && ld.Op == token.MUL && ld.X == ssa.Value(a) {
					continue
				}
				last = st.Val
			}
		}
		if last != nil {
			out[i] = last
		}
	}
	return out
}

// AtomicConds expands a condition through boolean negation: returns (value, polarity).
func Normalize(c Cond) Cond {
	for {
		u, ok := c.V.(*ssa.UnOp)
		if ok && u.Op == token.NOT {
			c = Cond{u.X, !c.True, c.If}
			continue
		}
		return c
	}
}

// InstrDominates reports whether a is executed before b on every path reaching b (same function).
func InstrDominates(a, b ssa.Instruction) bool {
	if a.Block() == b.Block() {
		for _, i := range a.Block().Instrs {
			if i == a {
				return true
			}
			if i == b {
				return false
			}
		}
	}
	return a.Block().Dominates(b.Block())
}

// Reaches reports whether there is a CFG path from the point just after a to b.
func Reaches(a, b ssa.Instruction) bool {
	if a.Block() == b.Block() {
		ai, bi := -1, -1
		for k, i := range a.Block().Instrs {
			if i == a {
				ai = k
			}
			if i == b {
				bi = k
			}
		}
		if ai < bi {
			return true
		}
	}
	seen := map[*ssa.BasicBlock]bool{}
	var stack []*ssa.BasicBlock
	stack = append(stack, a.Block().Succs...)
	for len(stack) > 0 {
		x := stack[len(stack)-1]
		stack = stack[:len(stack)-1]
		if seen[x] {
			continue
		}
		seen[x] = true
		if x == b.Block() {
			return true
		}
		stack = append(stack, x.Succs...)
	}
	return false
}

// ReachesAvoiding reports whether there is a CFG path from just after a to b that does not enter block avoid
// (a path that re-enters avoid re-executes whatever check lives there).
func ReachesAvoiding(a, b ssa.Instruction, avoid *ssa.BasicBlock) bool {
	if a.Block() == b.Block() {
		ai, bi := -1, -1
		for k, i := range a.Block().Instrs {
			if i == a {
				ai = k
			}
			if i == b {
				bi = k
			}
		}
		if ai < bi {
			return true
		}
	}
	seen := map[*ssa.BasicBlock]bool{}
	var stack []*ssa.BasicBlock
	stack = append(stack, a.Block().Succs...)
	for len(stack) > 0 {
		x := stack[len(stack)-1]
		stack = stack[:len(stack)-1]
		if seen[x] || x == avoid {
			continue
		}
		seen[x] = true
		if x == b.Block() {
			return true
		}
		stack = append(stack, x.Succs...)
	}
	return false
}

// InLoop reports whether block b lies on a CFG cycle.
func InLoop(b *ssa.BasicBlock) bool {
	seen := map[*ssa.BasicBlock]bool{}
	stack := append([]*ssa.BasicBlock{}, b.Succs...)
	for len(stack) > 0 {
		x := stack[len(stack)-1]
		stack = stack[:len(stack)-1]
		if x == b {
			return true
		}
		if seen[x] {
			continue
		}
		seen[x] = true
		stack = append(stack, x.Succs...)
	}
	return false
}

// ---------------------------------------------------------------- A4 path counting

const Many = 1 << 20

// PathCount returns the minimum and maximum number of matching instructions
// over all acyclic entry→exit paths of f (back edges cut). A match inside a
// loop counts as Many for the maximum. Blocks for which skip returns true are
// treated as non-existent (paths through them are not considered). Exits are
// Return instructions (panics are not exits).
func PathCount(f *ssa.Function, weight func(ssa.Instruction) int, skip func(*ssa.BasicBlock) bool) (min, max int) {
	if len(f.Blocks) == 0 {
		return 0, 0
	}
	return PathCountFrom(f.Blocks[0], nil, weight, skip)
}

// PathCountFrom counts from the start of block `from` (or just after instruction `after` if non-nil, which must be in `from`).
func PathCountFrom(from *ssa.BasicBlock, after ssa.Instruction, weight func(ssa.Instruction) int, skip func(*ssa.BasicBlock) bool) (min, max int) {
	return pathCount(from, after, weight, skip, true)
}

// PathCountIter is PathCountFrom without the loop penalty: it counts matches along
// one traversal (used for "exactly once per loop iteration": start inside the body;
// the traversal ends when it comes back to the starting block or leaves through the loop exit to a return).
func PathCountIter(from *ssa.BasicBlock, after ssa.Instruction, weight func(ssa.Instruction) int, skip func(*ssa.BasicBlock) bool) (min, max int) {
	return pathCount(from, after, weight, skip, false)
}

// PathCountIterEdges is PathCountIter with individual edges declared non-existent.
func PathCountIterEdges(from *ssa.BasicBlock, after ssa.Instruction, weight func(ssa.Instruction) int, skipEdge func(from, to *ssa.BasicBlock) bool) (min, max int) {
	return pathCountE(from, after, weight, nil, skipEdge, false)
}

// PathCountEdges is PathCountFrom where, in addition to blocks, individual CFG edges can be declared
// non-existent (e.g. the edge on which a closed flag was found set), which also covers guards of the
// form `if !closed { … }` whose other edge falls straight through to the join block.
func PathCountEdges(from *ssa.BasicBlock, after ssa.Instruction, weight func(ssa.Instruction) int, skipEdge func(from, to *ssa.BasicBlock) bool) (min, max int) {
	return pathCountE(from, after, weight, nil, skipEdge, true)
}

func pathCount(from *ssa.BasicBlock, after ssa.Instruction, weight func(ssa.Instruction) int, skip func(*ssa.BasicBlock) bool, loopPenalty bool) (min, max int) {
	return pathCountE(from, after, weight, skip, nil, loopPenalty)
}

func pathCountE(from *ssa.BasicBlock, after ssa.Instruction, weight func(ssa.Instruction) int, skip func(*ssa.BasicBlock) bool, skipEdge func(from, to *ssa.BasicBlock) bool, loopPenalty bool) (min, max int) {
	type mm struct{ min, max int }
	memo := map[*ssa.BasicBlock]*mm{}
	onStack := map[*ssa.BasicBlock]bool{}
	var visit func(b *ssa.BasicBlock, start int) *mm
	visit = func(b *ssa.BasicBlock, start int) *mm {
		if start == 0 {
			if r, ok := memo[b]; ok {
				return r
			}
		}
		onStack[b] = true
		w := 0
		loop := loopPenalty && InLoop(b)
		isExit := false
		for _, ins := range b.Instrs[start:] {
			k := 0
			if weight != nil {
				k = weight(ins)
			}
			if k > 0 && loop {
				k = Many
			}
			w += k
			if _, ok := ins.(*ssa.Return); ok {
				isExit = true
			}
		}
		res := &mm{-1, -1}
		if isExit {
			res = &mm{w, w}
		} else {
			for _, s := range b.Succs {
				if (skip != nil && skip(s)) || (skipEdge != nil && skipEdge(b, s)) {
					continue
				}
				if !loopPenalty && s == from && onStack[s] {
					// per-iteration counting: coming back to the block we started in ends the iteration
					if res.min < 0 || w < res.min {
						res.min = w
					}
					if w > res.max {
						res.max = w
					}
					continue
				}
				if onStack[s] {
					continue
				}
				r := visit(s, 0)
				if r.min < 0 {
					continue
				}
				if res.min < 0 || r.min+w < res.min {
					res.min = r.min + w
				}
				if r.max+w > res.max {
					res.max = r.max + w
				}
			}
		}
		if res.max > Many {
			res.max = Many
		}
		onStack[b] = false
		if start == 0 {
			memo[b] = res
		}
		return res
	}
	start := 0
	if after != nil {
		for k, i := range from.Instrs {
			if i == after {
				start = k + 1
			}
		}
	}
	r := visit(from, start)
	return r.min, r.max
}

// ---------------------------------------------------------------- A3 lockset

type Lockset map[string]bool // "path:W" or "path:R"

func (l Lockset) Clone() Lockset {
	n := Lockset{}
	for k := range l {
		n[k] = true
	}
	return n
}
func (l Lockset) Has(path, mode string) bool { return l[path+":"+mode] }
func (l Lockset) HasAny(path string) bool    { return l[path+":W"] || l[path+":R"] }
func (l Lockset) String() string {
	var ks []string
	for k := range l {
		ks = append(ks, k)
	}
	sort.Strings(ks)
	return "{" + strings.Join(ks, ",") + "}"
}
func lsInter(a, b Lockset) Lockset {
	n := Lockset{}
	for k := range a {
		if b[k] {
			n[k] = true
		}
	}
	return n
}

// LockOp classifies a call as a sync.(RW)Mutex operation on a lock path.
func LockOp(c *ssa.CallCommon) (op, path string, ok bool) {
	f := c.StaticCallee()
	if f == nil || f.Signature.Recv() == nil || len(c.Args) == 0 {
		return "", "", false
	}
	o := f.Object()
	if o == nil || o.Pkg() == nil || o.Pkg().Path() != "sync" {
		return "", "", false
	}
	switch f.Name() {
	case "Lock", "Unlock", "RLock", "RUnlock":
		return f.Name(), Path(c.Args[0]), true
	}
	return "", "", false
}

func applyLock(cur Lockset, ins ssa.Instruction) {
	c, ok := ins.(*ssa.Call)
	if !ok {
		return
	}
	if op, p, ok := LockOp(&c.Call); ok {
		switch op {
		case "Lock":
			cur[p+":W"] = true
		case "RLock":
			cur[p+":R"] = true
		case "Unlock":
			delete(cur, p+":W")
		case "RUnlock":
			delete(cur, p+":R")
		}
	}
}

// LocksIn computes, for every instruction of f, the set of locks certainly
// held just before it, given the locks held on entry (must-analysis,
// intersection at joins; `defer Unlock` keeps the lock until the exits).
func LocksIn(f *ssa.Function, entry Lockset) map[ssa.Instruction]Lockset {
	res := map[ssa.Instruction]Lockset{}
	if len(f.Blocks) == 0 {
		return res
	}
	out := make([]Lockset, len(f.Blocks))
	in := make([]Lockset, len(f.Blocks))
	for changed, iter := true, 0; changed && iter < 50; iter++ {
		changed = false
		for _, b := range f.Blocks {
			var cur Lockset
			if b.Index == 0 {
				cur = entry.Clone()
			} else {
				first := true
				for _, p := range b.Preds {
					if out[p.Index] == nil {
						continue
					}
					if first {
						cur, first = out[p.Index].Clone(), false
					} else {
						cur = lsInter(cur, out[p.Index])
					}
				}
				if cur == nil {
					continue
				}
			}
			in[b.Index] = cur.Clone()
			for _, ins := range b.Instrs {
				applyLock(cur, ins)
			}
			if out[b.Index] == nil || out[b.Index].String() != cur.String() {
				out[b.Index] = cur
				changed = true
			}
		}
	}
	for _, b := range f.Blocks {
		if in[b.Index] == nil {
			continue
		}
		cur := in[b.Index].Clone()
		for _, ins := range b.Instrs {
			res[ins] = cur.Clone()
			applyLock(cur, ins)
		}
	}
	return res
}

// LocksInMay is the "may be held" counterpart of LocksIn (union at joins): used to find a lock operation that
// can be reached while the same lock is still held (a missing unlock on a path that loops back).
func LocksInMay(f *ssa.Function, entry Lockset) map[ssa.Instruction]Lockset {
	res := map[ssa.Instruction]Lockset{}
	if len(f.Blocks) == 0 {
		return res
	}
	out := make([]Lockset, len(f.Blocks))
	in := make([]Lockset, len(f.Blocks))
	for changed, iter := true, 0; changed && iter < 50; iter++ {
		changed = false
		for _, b := range f.Blocks {
			cur := Lockset{}
			if b.Index == 0 {
				cur = entry.Clone()
			}
			for _, p := range b.Preds {
				for k := range out[p.Index] {
					cur[k] = true
				}
			}
			in[b.Index] = cur.Clone()
			for _, ins := range b.Instrs {
				applyLock(cur, ins)
			}
			if out[b.Index] == nil || out[b.Index].String() != cur.String() {
				out[b.Index] = cur
				changed = true
			}
		}
	}
	for _, b := range f.Blocks {
		cur := in[b.Index].Clone()
		for _, ins := range b.Instrs {
			res[ins] = cur.Clone()
			applyLock(cur, ins)
		}
	}
	return res
}

// LockInfo is the whole-program lock state: locks held before every instruction,
// with entry locksets of unexported helpers and closures inferred from their call sites.
type LockInfo struct {
	At    map[ssa.Instruction]Lockset
	Entry map[*ssa.Function]Lockset
}

// translate maps a caller-side lockset to callee-side names: a lock whose path
// starts with the path of actual argument i is renamed to the callee's parameter i.
func translate(ls Lockset, call *ssa.CallCommon, callee *ssa.Function) Lockset {
	out := Lockset{}
	for k := range ls {
		p, mode, _ := strings.Cut(k, ":")
		done := false
		for i, a := range call.Args {
			if i >= len(callee.Params) {
				break
			}
			ap := Path(a)
			if p == ap || strings.HasPrefix(p, ap+".") {
				out[callee.Params[i].Name()+p[len(ap):]+":"+mode] = true
				done = true
				break
			}
		}
		_ = done
	}
	return out
}

// ComputeLocks runs the lockset analysis over all repo functions. Entry locks:
// exported functions/methods start with none (callable from anywhere); an
// unexported function or a closure starts with the intersection of the locks
// held at all of its call sites (closures: call sites of the closure value,
// including calls of the func-typed parameter it is bound to in a callee);
// a function whose value escapes otherwise (go, stored, passed to an unknown
// callee) starts with none.
func ComputeLocks(p *Prog) *LockInfo {
	li := &LockInfo{At: map[ssa.Instruction]Lockset{}, Entry: map[*ssa.Function]Lockset{}}
	for _, f := range p.Funcs {
		li.Entry[f] = Lockset{}
	}
	// analyse with empty entries first, then refine to a fixpoint (entries only grow from
	// the optimistic ⊤ would be unsound for recursion; we instead start from ∅ and do a
	// bounded number of strengthening rounds, each round recomputing entries from the
	// previous round's call-site locksets — sound because round k's call-site locksets are
	// themselves derived from sound entries).
	for round := 0; round < 4; round++ {
		for _, f := range p.Funcs {
			for ins, ls := range LocksIn(f, li.Entry[f]) {
				li.At[ins] = ls
			}
		}
		next := map[*ssa.Function]Lockset{}
		sites := map[*ssa.Function][]Lockset{}
		escapes := map[*ssa.Function]bool{}
		// closure bound to a func parameter of callee g: calls of that parameter inside g
		for _, f := range p.Funcs {
			Instrs(f, func(ins ssa.Instruction) {
				switch x := ins.(type) {
				case *ssa.Go:
					markEscapes(x.Call.Value, escapes)
					for _, a := range x.Call.Args {
						markEscapes(a, escapes)
					}
					if g := Callee(&x.Call); g != nil && p.InRepo(g) {
						sites[g] = append(sites[g], Lockset{})
					}
				case *ssa.Defer:
					// deferred calls run at exit: locks unknown → none
					if g := Callee(&x.Call); g != nil && p.InRepo(g) {
						sites[g] = append(sites[g], Lockset{})
					}
					markEscapes(x.Call.Value, escapes)
					for _, a := range x.Call.Args {
						markEscapes(a, escapes)
					}
				case *ssa.Call:
					ls := li.At[ins]
					g := Callee(&x.Call)
					if g != nil && p.InRepo(g) {
						sites[g] = append(sites[g], translate(ls, &x.Call, g))
						// closures passed as arguments: find calls of the bound parameter in g
						for i, a := range x.Call.Args {
							mc := closureOf(a)
							if mc == nil {
								continue
							}
							// a bound method value `T{f: v, …}.m`: the code that runs is the method; locks named after v in
							// this frame are named after recv.f inside the method
							method, recvLit := boundTarget(a)
							if i < len(g.Params) && onlyCalled(g.Params[i]) {
								for _, r := range *g.Params[i].Referrers() {
									if rc, ok := r.(*ssa.Call); ok {
										// locks at the inner call, translated back to caller names
										inner := li.At[rc]
										cls := untranslate(inner, &x.Call, g)
										if method != nil {
											sites[method] = append(sites[method], throughReceiver(cls, method, recvLit))
											continue
										}
										sites[mc] = append(sites[mc], toFreeVarNames(cls, a))
									}
								}
							} else {
								escapes[mc] = true
								if method != nil {
									escapes[method] = true
								}
							}
						}
					} else {
						// dynamic call of a closure value defined in this function
						if mc := closureOf(x.Call.Value); mc != nil {
							sites[mc] = append(sites[mc], toFreeVarNames(ls.Clone(), x.Call.Value))
						}
						for _, a := range x.Call.Args {
							markEscapes(a, escapes)
						}
					}
				case *ssa.Store:
					// a closure stored into a local cell that is only loaded-and-called is handled by closureOf; other stores escape
					if mc := closureOf(x.Val); mc != nil {
						if a, ok := x.Addr.(*ssa.Alloc); !ok || !cellOnlyCalled(a) {
							escapes[mc] = true
						}
					}
				case *ssa.Return:
					for _, r := range x.Results {
						markEscapes(r, escapes)
					}
				case *ssa.Send:
					markEscapes(x.X, escapes)
				}
			})
		}
		for _, f := range p.Funcs {
			if escapes[f] || len(sites[f]) == 0 {
				next[f] = Lockset{}
				continue
			}
			if f.Parent() == nil {
				if o := f.Object(); o == nil || o.Exported() {
					next[f] = Lockset{}
					continue
				}
			}
			cur := sites[f][0]
			for _, s := range sites[f][1:] {
				cur = lsInter(cur, s)
			}
			next[f] = cur
		}
		same := true
		for _, f := range p.Funcs {
			if next[f].String() != li.Entry[f].String() {
				same = false
			}
		}
		li.Entry = next
		if same {
			break
		}
	}
	for _, f := range p.Funcs {
		for ins, ls := range LocksIn(f, li.Entry[f]) {
			li.At[ins] = ls
		}
	}
	return li
}

func untranslate(ls Lockset, call *ssa.CallCommon, callee *ssa.Function) Lockset {
	out := Lockset{}
	for k := range ls {
		p, mode, _ := strings.Cut(k, ":")
		for i, prm := range callee.Params {
			if i >= len(call.Args) {
				break
			}
			if p == prm.Name() || strings.HasPrefix(p, prm.Name()+".") {
				out[Path(call.Args[i])+p[len(prm.Name()):]+":"+mode] = true
				break
			}
		}
	}
	return out
}

// boundTarget: for a bound method value (MakeClosure of a $bound wrapper) the method that runs and the bound receiver.
func boundTarget(v ssa.Value) (*ssa.Function, ssa.Value) {
	mc, ok := Resolve(v).(*ssa.MakeClosure)
	if !ok || len(mc.Bindings) != 1 {
		return nil, nil
	}
	fn := mc.Fn.(*ssa.Function)
	if !strings.HasSuffix(fn.Name(), "$bound") && !strings.Contains(fn.Synthetic, "bound method") {
		return nil, nil
	}
	var target *ssa.Function
	Instrs(fn, func(ins ssa.Instruction) {
		if call, isC := ins.(*ssa.Call); isC {
			if g := Callee(&call.Call); g != nil {
				target = g
			}
		}
	})
	return target, mc.Bindings[0]
}

// throughReceiver renames the locks of ls (named in the frame that built the receiver) to the names they
// have inside the method: a lock rooted at the value stored into field f of the receiver literal becomes
// <receiver parameter>.f….
func throughReceiver(ls Lockset, method *ssa.Function, recv ssa.Value) Lockset {
	out := Lockset{}
	if len(method.Params) == 0 {
		return out
	}
	t := method.Params[0].Type()
	if pt, ok := t.Underlying().(*types.Pointer); ok {
		t = pt.Elem()
	}
	st, ok := t.Underlying().(*types.Struct)
	if !ok {
		return out
	}
	for k := range ls {
		pth, mode, _ := strings.Cut(k, ":")
		for i := 0; i < st.NumFields(); i++ {
			fv := literalField(recv, i)
			if fv == nil {
				continue
			}
			q := Path(fv)
			if pth == q || strings.HasPrefix(pth, q+".") {
				out[method.Params[0].Name()+"."+st.Field(i).Name()+pth[len(q):]+":"+mode] = true
			}
		}
	}
	return out
}

// closureOf returns the function of a MakeClosure (or bare function value) reaching v through single-store locals.
// toFreeVarNames: inside a closure a captured variable is named after the variable; in the creating frame the value it
// holds may be named differently (`cor := op.cor` - the lock is taken on `op.cor`, the closure sees `cor`). Locks whose
// path starts with the path of the value bound to a captured variable are also offered under the variable's name.
func toFreeVarNames(ls Lockset, fnValue ssa.Value) Lockset {
	mk, ok := Resolve(fnValue).(*ssa.MakeClosure)
	if !ok {
		return ls
	}
	fn := mk.Fn.(*ssa.Function)
	out := ls.Clone()
	for i, b := range mk.Bindings {
		if i >= len(fn.FreeVars) {
			break
		}
		al, isAl := b.(*ssa.Alloc)
		if !isAl {
			continue
		}
		st := Stores(al)
		if len(st) != 1 {
			continue
		}
		vp := Path(st[0].Val)
		name := fn.FreeVars[i].Name()
		for k := range ls {
			pth, mode, _ := strings.Cut(k, ":")
			if pth == vp || strings.HasPrefix(pth, vp+".") {
				out[name+pth[len(vp):]+":"+mode] = true
			}
		}
	}
	return out
}

func closureOf(v ssa.Value) *ssa.Function {
	v = Resolve(v)
	switch x := v.(type) {
	case *ssa.MakeClosure:
		return x.Fn.(*ssa.Function)
	case *ssa.Function:
		return x
	}
	return nil
}

func markEscapes(v ssa.Value, esc map[*ssa.Function]bool) {
	if v == nil {
		return
	}
	if f := closureOf(v); f != nil {
		esc[f] = true
	}
}

// onlyCalled: every use of the parameter is as the callee of a direct call.
func onlyCalled(prm *ssa.Parameter) bool {
	if prm.Referrers() == nil {
		return false
	}
	for _, r := range *prm.Referrers() {
		c, ok := r.(*ssa.Call)
		if !ok || c.Call.Value != prm {
			return false
		}
	}
	return len(*prm.Referrers()) > 0
}

// cellOnlyCalled: a local cell whose loads are only used as callees, or captured by closures that do the same.
func cellOnlyCalled(a *ssa.Alloc) bool {
	for _, r := range *a.Referrers() {
		switch x := r.(type) {
		case *ssa.Store:
			if x.Addr != a {
				return false
			}
		case *ssa.UnOp:
			for _, rr := range *x.Referrers() {
				switch y := rr.(type) {
				case *ssa.Call:
					// used as callee or as an argument (argument use is examined at that call)
					_ = y
				case *ssa.DebugRef:
				default:
					return false
				}
			}
		case *ssa.MakeClosure, *ssa.DebugRef:
		default:
			return false
		}
	}
	return true
}

// FeasiblePaths enumerates the acyclic entry→return paths of f, pruning branches whose
// condition is, on the path taken so far, a phi of boolean constants (flag variables).
func FeasiblePaths(f *ssa.Function, limit int) ([][]*ssa.BasicBlock, bool) {
	var out [][]*ssa.BasicBlock
	var cur []*ssa.BasicBlock
	on := map[*ssa.BasicBlock]bool{}
	ok := true
	constOnPath := func(v ssa.Value) (bool, bool) {
		for depth := 0; depth < 4; depth++ {
			switch x := v.(type) {
			case *ssa.Const:
				if x.Value != nil && x.Value.Kind() == constant.Bool {
					return constant.BoolVal(x.Value), true
				}
				return false, false
			case *ssa.Phi:
				// predecessor of x.Block() on the current path
				var pred *ssa.BasicBlock
				for i, b := range cur {
					if b == x.Block() && i > 0 {
						pred = cur[i-1]
					}
				}
				if pred == nil {
					return false, false
				}
				found := false
				for i, pb := range x.Block().Preds {
					if pb == pred {
						v, found = x.Edges[i], true
					}
				}
				if !found {
					return false, false
				}
			default:
				return false, false
			}
		}
		return false, false
	}
	decided := map[interface{}]bool{}
	// condKey: the proposition a branch decides - the SSA value itself, or for a comparison its canonical form (two
	// comparison instructions over the same operands are the same proposition: `r != nil` tested twice, or once as
	// `r == nil`), with the truth value that corresponds to the true edge
	type cmpKey struct {
		op   token.Token
		x, y ssa.Value
	}
	condKey := func(nc Cond) (interface{}, bool) {
		if m, isCmp := AsCmp(Cond{V: nc.V, True: true}); isCmp {
			truth := nc.True
			op := m.Op
			switch op {
			case token.NEQ, token.GEQ, token.GTR:
				op, truth = negOp(op), !truth
			}
			x, y := Resolve(m.X), Resolve(m.Y)
			if _, xk := x.(*ssa.Const); !xk {
				if _, yk := y.(*ssa.Const); !yk {
					return cmpKey{op, x, y}, truth
				}
			}
			if k, isK := y.(*ssa.Const); isK && k.Value == nil {
				return cmpKey{op, x, nil}, truth
			}
		}
		return nc.V, nc.True
	}
	var dfs func(b *ssa.BasicBlock)
	dfs = func(b *ssa.BasicBlock) {
		if !ok || on[b] {
			return
		}
		on[b] = true
		cur = append(cur, b)
		last := b.Instrs[len(b.Instrs)-1]
		switch x := last.(type) {
		case *ssa.Return:
			out = append(out, append([]*ssa.BasicBlock{}, cur...))
			if len(out) > limit {
				ok = false
			}
		case *ssa.If:
			// the same SSA value tested twice on one acyclic path has the same truth value both times
			nc := Normalize(Cond{V: x.Cond, True: true})
			if val, known := constOnPath(x.Cond); known {
				if val {
					dfs(b.Succs[0])
				} else {
					dfs(b.Succs[1])
				}
			} else if key, truth := condKey(nc); true {
				if prev, seen := decided[key]; seen {
					if prev == truth {
						dfs(b.Succs[0])
					} else {
						dfs(b.Succs[1])
					}
				} else {
					decided[key] = truth
					dfs(b.Succs[0])
					decided[key] = !truth
					dfs(b.Succs[1])
					delete(decided, key)
				}
			}
		default:
			for _, s := range b.Succs {
				dfs(s)
			}
		}
		cur = cur[:len(cur)-1]
		on[b] = false
	}
	if len(f.Blocks) > 0 {
		dfs(f.Blocks[0])
	}
	return out, ok
}
